#!/bin/bash
# round-2 seeded changes against their checks; FOREGROUND ONLY (patches /repo).
OUT=/verif/seeded/MATRIX_round2.txt
: > $OUT
cd /repo && git diff --quiet || { echo "/repo not clean"; exit 2; }
run() { n=$1; p=$2
  git -C /repo apply /verif/seeded/$n/patch.diff || { echo "$n $p APPLY-FAILED" >> $OUT; return; }
  ( cd /verif && timeout 3000 ./check $p --tier quick > /tmp/matrix_${n}_$p.log 2>&1 ); rc=$?
  git -C /repo checkout -- .
  echo "$n $p exit=$rc violations=$(grep -c '^VIOLATION' /tmp/matrix_${n}_$p.log) $(grep -E '^\[' /tmp/matrix_${n}_$p.log | tail -1)" >> $OUT
}
run C02_b C02; run C03_b C03; run C03_b C15; run C06_b C06; run C09_b C09; run C10_b C10; run C13_b C13; run C14_b C14; run C14_b C15; run C15_b C15; run C18_b C18; run C19_b C19
echo DONE >> $OUT
