"""C14 - timeseries, multi-tower and parallel runs equal the individual single
runs.  Engine B (CrossHair) on the repository's own drivers with a contract
model of the process pool (see vf/props/ch/c14.py)."""
import os

from .. import chrun

PID = "C14"
HERE = os.path.dirname(os.path.abspath(__file__))
TEMPLATE = os.path.join(HERE, "ch", "c14.py")
CONDITIONS = ["check_parallel_s0", "check_parallel_s1", "check_parallel_s2", "check_parallel_s3", "check_serial"]
TWINS = ["twin_parallel", "twin_serial"]
DESCRIBE = {
    "check_parallel_s0": "strategy 'towers': result == {tower: [single(tower, i)]} keyed in configuration order, parent thread/FFT state untouched, equals the serial driver",
    "check_parallel_s1": "strategy 'time'", "check_parallel_s2": "strategy 'both'", "check_parallel_s3": "unknown strategy is rejected",
    "check_serial": "timeseries / multitower == single runs in time and configuration order; one cache per series exactly when use_cache and footprint, handed to every step",
}


def main(run):
    quick = run.tier == "quick"
    subst = dict(TMAX=3 if quick else 4)
    run.explanation = (
        "CrossHair symbolic execution (z3 per path) of the repository's drivers; only 'Confirmed over all paths' counts as held. "
        "Symbolic: number of towers and steps (1..%d), strategy, worker count given (1..5) or taken from the configuration, the "
        "environment's execution/completion order (rotation 0..5 and reversal of the submission order), parent thread setting "
        "1..4, cache flag, footprint flag." % subst["TMAX"]
    )
    run.assumptions = [
        "run_bldfm_single returns a token (tower name, step index)",
        "process pool contract: tasks run on copies of module state (restored after each task), map() yields in submission order, "
        "submit()/as_completed() yield in the environment's order; real process pools, pickling and concurrency on a shared cache directory are outside the claim",
        "schedules are rotations/reversals of the submission order (2n of the n! orders)",
    ]
    run.bounds = dict(subst, workers="1..5 or None", rotations="0..5", parent_threads="1..4")
    run.stubs = ["concurrent.futures.ProcessPoolExecutor / as_completed / wait -> contract model", "bldfm.cache.GreensFunctionCache -> counting token",
                 "interface.run_bldfm_single -> token"]
    from ..symnp.loader import Loader

    L = Loader(run=run)
    L.record("interface", "run_bldfm_timeseries", "run_bldfm_multitower", "run_bldfm_parallel", "_worker_single", "_worker_timeseries", "_make_cache")
    res = chrun.run_conditions(run, TEMPLATE, subst, CONDITIONS, TWINS, 200 if quick else 900, PID, DESCRIBE)
    for fn, rec, ok in res:
        run.report(rec, ok)
    # cache on == cache off. The drivers hand the per-series cache to every single run (encoded above); a single run with a
    # cache equals the run without one iff a stored entry never answers a different request. That is the key-injectivity
    # obligation of C15, decided here on the requests a series produces: same source shape / modes / precision / flags,
    # any two sets of values (vertical grid, profiles, domain, measurement point, halo, background).
    from . import C15

    # (requests of different series share the persistent cache directory: default halo, explicit halo and halo = 0 classes)
    sks = [sk for sk in C15.skeletons("quick") if sk["shape"] == (4, 6) and sk["precision"] == "double"]
    if not quick:
        sks = C15.skeletons("quick")
    run.assumptions.append("cache part: assumptions of C15 part (a) (SHA-256 collision-free, tobytes = values)")
    run.extra["cache_skeletons"] = len(sks)
    cex = C15.part_a(run, sks=sks)
    for c in cex[:4]:
        r_ = C15.replay(c)
        run.report(dict(c, property=PID, replay=r_, cmd="./check C14 --replay <this file>"), bool(r_.get("confirmed")))


def replay(rec):
    if "call" in rec:
        return chrun.replay_record(rec, os.path.join(HERE, "ch"))
    from . import C15

    return C15.replay(rec)
