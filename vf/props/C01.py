"""C01 - convergence to the exact advection-diffusion solution for varying
profiles.

The rate statement itself (error proportional to the layer thickness, >= 2.5x
when quartered, against a Riccati reference) is a limit over grids against a
transcendental reference: not expressible to an SMT solver.  Decided instead
are the obligations the convergence theorem for one-step schemes needs
(consistency + the exact boundary conditions; stability is inherited from
C05's propagator form):

O1 (kind P, exact, unbounded reals) consistency per layer.  The real
   ivp_solver runs over two layers whose thicknesses are FORMAL variables of a
   truncated power series (coefficients are z3 terms), every profile value,
   the wavenumber pair and the initial state symbolic.  z3 decides that the
   Taylor coefficients of the swept state are: order 0 the initial state; the
   coefficient of eps_i is M_i (p, q) with
   M = [[0, -1/Kz*], [-(Kx* Lx^2 + Ky* Ly^2) - i (u* Lx + v* Ly), 0]], starred
   values sampled at node i, or node i+1, or their mean (any of the three is
   accepted); the coefficient of eps_0 eps_1 is M_1 M_0 (p, q) (bottom-up
   order); and the state stored at the intermediate output level has no
   dependence on the layer above it.
O2 (kind P, exact) lower boundary: the real steady_state_transport_solver on a
   4x4 grid (exact DFT in Q(i)) with all profile values symbolic returns at the
   surface level the prescribed flux for every retained mode.
O3 (kind L) upper boundary: for concrete profile families and a symbolic source
   the spectral coefficients of the returned fields at the top node satisfy
   q^_k = Kz[top] e_k p^_k with e_k the principal root of
   (Kx l^2 + Ky m^2 + i (u l + v m)) / Kz at the TOP node, for every retained
   non-Nyquist non-constant mode, for all sources.
O4 mean mode: C03(b) (shared).   O5 level bookkeeping: C10 (shared).

Replay of a failed obligation: real solver at n and 4n layers against an
independent Riccati (admittance) integration with scipy DOP853 (rtol 1e-11) of
the same boundary-value problem for smooth profiles; violation reported only
when the error fails to shrink 2.5x."""
import functools
from fractions import Fraction as F

import numpy as np
import z3

from ..symnp import affine as af
from ..symnp import exact as ex
from ..symnp import kindl
from . import C05

PID = "C01"


# ---------------------------------------------------------------------------
# O1


def o1(run, patch=None, account=True):
    L, mod = C05.load_exact(patch)
    if account:
        run.encode("bldfm.solver", "ivp_solver (exact mode, power-series thicknesses)", L.function_source("solver", "ivp_solver"))
    c = ex.new_ctx()
    nz = 3
    prof = tuple(ex.xarr([c.real("%s%d" % (n, i)) for i in range(nz)]) for n in "u v Kx Ky Kz".split())
    for i in range(nz):
        c.assume.append(prof[4][i].v > 0)
    z0 = c.real("z0")
    e0, e1 = ex.PS.var(0, 2), ex.PS.var(1, 2)
    z = np.empty(3, dtype=object)
    z[0] = ex.PS.const(z0, 2)
    z[1] = z[0] + e0
    z[2] = z[1] + e1
    z = z.view(ex.XArr)
    lx, ly = c.real("Lx"), c.real("Ly")
    p0 = ex.C(c.real("p_re"), c.real("p_im"))
    q0 = ex.C(c.real("q_re"), c.real("q_im"))
    r = mod.ivp_solver((ex.xarr([p0]), ex.xarr([q0])), prof, z, [1, 2], ex.xarr([lx]), ex.xarr([ly]))
    pf, qf, plv, qlv = r[0][0], r[1][0], r[2], r[3]

    def co(x, m):
        return x.coeff(m) if isinstance(x, ex.PS) else (ex.C.of(x) if sum(m) == 0 else ex.C(0, 0))

    def Mat(i, rule):
        def val(k):
            a, b = prof[k][i], prof[k][i + 1]
            return {"left": a, "right": b, "mean": (a + b) * ex.R(F(1, 2))}[rule]

        u, v, Kx, Ky, Kz = (val(k) for k in range(5))
        if rule == "mean":
            kinv = (ex.R(1) / prof[4][i] + ex.R(1) / prof[4][i + 1]) * ex.R(F(1, 2))
        else:
            kinv = ex.R(1) / Kz
        T = ex.C(-(Kx * lx * lx + Ky * ly * ly), -(u * lx + v * ly))
        return [[ex.C(0, 0), ex.C(-kinv, 0)], [T, ex.C(0, 0)]]

    def apply(M, vec):
        return (M[0][0] * vec[0] + M[0][1] * vec[1], M[1][0] * vec[0] + M[1][1] * vec[1])

    results = {}
    if account:
        run.twin(ex.solver_for(c), "C01 O1")
    for rule in ("left", "right", "mean"):
        M0, M1 = Mat(0, rule), Mat(1, rule)
        v0 = (p0, q0)
        want = {
            (0, 0): v0,
            (1, 0): apply(M0, v0),
            (0, 1): apply(M1, v0),
            (1, 1): apply(M1, apply(M0, v0)),
        }
        bad = []
        for m, (wp, wq) in want.items():
            bad.append(ex.neq(co(pf, m), wp))
            bad.append(ex.neq(co(qf, m), wq))
        # states stored at the output levels: node 1 (after layer 0 only) and node 2
        for m, (wp, wq) in {(0, 0): v0, (1, 0): apply(M0, v0), (0, 1): (ex.C(0, 0), ex.C(0, 0)), (1, 1): (ex.C(0, 0), ex.C(0, 0))}.items():
            bad.append(ex.neq(co(plv[0][0], m), wp))
            bad.append(ex.neq(co(qlv[0][0], m), wq))
        for m, (wp, wq) in want.items():
            bad.append(ex.neq(co(plv[1][0], m), wp))
            bad.append(ex.neq(co(qlv[1][0], m), wq))
        s = ex.solver_for(c)
        s.add(z3.Or(bad))
        scn = dict(obligation="O1", sampling=rule, layers=2)
        if account:
            res = run.solve(s, "O1_consistency_per_layer(sampling=%s)" % rule, scn)
        else:
            s.set("timeout", 60000)
            res = str(s.check())
        results[rule] = res
    return results


# ---------------------------------------------------------------------------
# O2


def o2(run, patch=None, account=True):
    L, mod = C05.load_exact(patch)
    S = mod.steady_state_transport_solver
    if account:
        run.encode("bldfm.solver", "steady_state_transport_solver (exact mode, 4x4 grid)", L.function_source("solver", "steady_state_transport_solver"))
    out = []
    for nz in (2, 3):
        c = ex.new_ctx()
        prof = tuple(ex.xarr([c.real("%s%d" % (n, i)) for i in range(nz)]) for n in "u v Kx Ky Kz".split())
        for i in range(nz):
            c.assume.append(prof[4][i].v > 0)
        zz = [c.real("z0")]
        for i in range(nz - 1):
            d = c.real("dz%d" % i)
            c.assume.append(d.v > 0)
            zz.append(zz[-1] + d)
        z = ex.xarr(zz)
        q = np.empty((4, 4), dtype=object)
        for idx in np.ndindex(4, 4):
            q[idx] = ex.R(0)
        q[0, 0], q[1, 2], q[3, 1] = c.real("qa"), c.real("qb"), c.real("qc")
        q = q.view(ex.XArr)
        bg = c.real("bg")
        g, conc, flx = S(q, z, prof, (40, 24), [0, nz - 1], modes=(2, 2), meas_pt=(0, 0), srf_bg_conc=bg, halo=0, precision="double")
        Q = ex.dft2_exact(flx, False, "forward")
        P = ex.dft2_exact(conc, False, "forward")
        q0h = ex.dft2_exact(q, False, "forward")
        bad = [ex.neq(Q[0, ky, kx], q0h[ky, kx] * ex.R(F(1, 2))) for (ky, kx) in ((0, 3), (3, 0), (3, 3))]
        bad.append(ex.neq(Q[0, 0, 0], q0h[0, 0]))
        bad.append(ex.neq(Q[1, 0, 0], q0h[0, 0]))  # mean flux conserved up to the top
        bad.append(ex.neq(P[0, 0, 0], ex.C.of(bg)))  # surface mean concentration is the background
        if account:
            # reachability twin without the principal-root equations (every complex number has a
            # principal root: they cannot make the assumptions contradictory, and nlsat needs
            # minutes to construct an algebraic witness for them)
            run.twin(ex.solver_for(c, with_axioms=False), "C01 O2 nz=%d" % nz)
        s = ex.solver_for(c)
        s.add(z3.Or(bad))
        scn = dict(obligation="O2", nodes=nz, grid=[4, 4], modes=[2, 2])
        if account:
            out.append(run.solve(s, "O2_lower_boundary_flux_prescribed", scn))
        else:
            s.set("timeout", 60000)
            out.append(str(s.check()))
    return out


# ---------------------------------------------------------------------------
# O3 (kind L)


def body(run, sym, sc):
    sp = sym.sp
    ny, nx, dx, dy = sc["ny"], sc["nx"], sc["dx"], sc["dy"]
    z, prof = kindl.profiles(sc["pid"], sc["n"], seed=sc["seed"])
    nz = len(z)
    q = sym.field((ny, nx))
    bg = sym.var("bg")
    sc0 = dict(sc, halo=0.0, levels=[0, nz - 1])
    g, c, f = kindl.sym_solve(sym, sc0, q, srf_bg_conc=bg, zprof=(z, prof))
    c, f = kindl.lv3(c, sc0), kindl.lv3(f, sc0)
    P = np.fft.fft2(af.coeffs(c[1], sp), axes=(0, 1), norm="forward")
    Q = np.fft.fft2(af.coeffs(f[1], sp), axes=(0, 1), norm="forward")
    nlx, nly = sc["modes"]
    if nlx > nx or nly > ny:
        nlx, nly = nx, ny
    kxs = np.fft.fftfreq(nlx, d=1.0 / nlx).round().astype(int)
    kys = np.fft.fftfreq(nly, d=1.0 / nly).round().astype(int)
    u, v, Kx, Ky, Kz = (np.asarray(a, float)[nz - 1] for a in prof)
    lhs, rhs = [], []
    for ky in kys:
        for kx in kxs:
            if kx == 0 and ky == 0:
                continue
            # skip self-conjugate (Nyquist) components: the real part taken by the solver mixes them
            if (kx != 0 and (2 * kx) % nx == 0) or (ky != 0 and (2 * ky) % ny == 0):
                continue
            l = 2 * np.pi * kx / (dx * nx)
            m = 2 * np.pi * ky / (dy * ny)
            e = np.sqrt((Kx * l * l + Ky * m * m + 1j * (u * l + v * m)) / Kz)
            lhs.append(Q[ky % ny, kx % nx])
            rhs.append(Kz * e * P[ky % ny, kx % nx])
    if not lhs:
        return
    scn = dict(sc0, obligation="O3", modes_checked=len(lhs))
    L_, R_ = af.from_coeffs(np.array(lhs), sp), af.from_coeffs(np.array(rhs), sp)
    vals = kindl.forms_equal(run, sp, L_, R_, "O3_upper_boundary_decaying_continuation", scn,
                             scale=max(af.scale_of(af.from_coeffs(Q, sp), sp), 1e-300))
    if vals is not None:
        run.cex.append(dict(scenario=scn, obligation="O3_upper_boundary_decaying_continuation",
                            q=kindl.field_from_model(vals, (ny, nx)).tolist()))
    run.sample(dict(scenario=scn, variables=sp.dim - 1), cap=3)


worker = functools.partial(kindl.guarded_worker, PID, body)


def body_halo(run, sym, sc):
    """O4: with a halo the retained components are those of the padded periodic grid the transform runs on
    (period nxe*dx, nye*dy - not xmx + 2*halo): a run with halo h equals, cell by cell and for all sources, the
    run on the explicitly zero-padded source with halo 0, whose components O1-O3 are about."""
    sp = sym.sp
    ny, nx = sc["ny"], sc["nx"]
    q = sym.field((ny, nx))
    bg = sym.var("bg")
    nxe, nye, px, py = kindl.padded(sc)
    g, c1, f1 = kindl.sym_solve(sym, sc, q, srf_bg_conc=bg)
    qp = np.pad(q, ((py, py), (px, px)), mode="constant", constant_values=0.0).view(af.SymArr)
    scp = dict(sc, halo=0.0, ny=nye, nx=nxe)
    g, c2, f2 = kindl.sym_solve(sym, scp, qp, srf_bg_conc=bg)
    c1, f1 = kindl.lv3(c1, sc), kindl.lv3(f1, sc)
    c2 = kindl.lv3(c2, scp, (nye, nxe))[:, py:nye - py, px:nxe - px]
    f2 = kindl.lv3(f2, scp, (nye, nxe))[:, py:nye - py, px:nxe - px]
    scn = dict(sc, obligation="O4", pad=[py, px])
    for name, a, b in (("O4_halo_components_are_those_of_the_padded_grid(flux)", f1, f2), ("O4_halo_components_are_those_of_the_padded_grid(conc)", c1, c2)):
        vals = kindl.forms_equal(run, sp, a, b, name, scn)
        if vals is not None:
            run.cex.append(dict(scenario=scn, obligation=name, q=kindl.field_from_model(vals, (ny, nx)).tolist(), bg=vals.get("bg", 0.0)))
    run.sample(dict(scenario=scn, variables=sp.dim - 1), cap=4)


worker_halo = functools.partial(kindl.guarded_worker, PID, body_halo)


# ---------------------------------------------------------------------------
# replay: Riccati reference


def riccati_errors(n_list=(64, 256)):
    """max relative error of the admittance p^/q^ of the real solver (surface and
    three quarters of the column) against a DOP853 Riccati integration of the
    same boundary-value problem, smooth anisotropic profiles, at n and 4n layers."""
    from scipy.integrate import solve_ivp

    real = kindl.real_pkg()
    S = real.solver.steady_state_transport_solver
    zb, zt_ = 0.1, 10.0

    def prof_at(zz):
        u = 2.0 * (zz / zt_) ** 0.2
        v = -0.6 * (zz / zt_) ** 0.2
        Kz = 0.4 * 0.3 * zz
        return u, v, 2.5 * Kz + 0.3, 0.6 * Kz + 0.05, Kz

    nx = ny = 8
    dom = (96.0, 80.0)
    out = []
    for n in n_list:
        z = np.linspace(zb, zt_, n + 1)
        lv = [0, (3 * n) // 4]
        q = np.zeros((ny, nx))
        q[0, 0] = 1.0
        g, c, f = S(q, z, prof_at(z), dom, lv, modes=(nx, ny), halo=0.0, precision="double")
        Ph = np.fft.fft2(c, axes=(1, 2), norm="forward")
        Qh = np.fft.fft2(f, axes=(1, 2), norm="forward")
        worst = 0.0
        for ky in (0, 1, 2, -1, -2):
            for kx in (1, 2, -1, -2, 0):
                if kx == 0 and ky == 0:
                    continue
                l, m = 2 * np.pi * kx / dom[0], 2 * np.pi * ky / dom[1]

                def T(zz):
                    u, v, Kx, Ky, Kz = prof_at(zz)
                    return -(Kx * l * l + Ky * m * m) - 1j * (u * l + v * m), Kz

                # only components the coarsest grid resolves: |T| dz^2 / Kz <= 1 in every layer
                zc = np.linspace(zb, zt_, n_list[0] + 1)
                Tc, Kc = T(zc)
                if np.max(np.abs(Tc) * (zc[1] - zc[0]) ** 2 / Kc) > 1.0:
                    continue
                Tt, Kt = T(zt_)
                e = np.sqrt(-Tt / Kt)
                r_top = 1.0 / (Kt * e)  # p/q at the top (decaying continuation)

                def rhs(zz, r):
                    Tz, Kz = T(zz)
                    return [-1.0 / Kz - Tz * r[0] ** 2]

                sol = solve_ivp(rhs, (zt_, zb), [complex(r_top)], method="DOP853", rtol=1e-11, atol=1e-14,
                                t_eval=[z[lv[1]], zb])
                for k, r_ex in ((1, sol.y[0, 0]), (0, sol.y[0, 1])):
                    got = Ph[k, ky % ny, kx % nx] / Qh[k, ky % ny, kx % nx]
                    worst = max(worst, abs(got - r_ex) / abs(r_ex))
        out.append(worst)
    return out


def replay(rec):
    if str(rec.get("obligation", "")).startswith("O4_"):
        from . import C03

        r = C03.replay(dict(rec, obligation="halo_equals_padding_flux"))
        r["obligation"] = rec["obligation"]
        return r
    errs = riccati_errors()
    ratio = errs[0] / errs[1] if errs[1] > 0 else float("inf")
    return dict(obligation=rec.get("obligation"), errors_n_4n=errs, ratio=ratio, need=">= 2.5",
                confirmed=bool(ratio < 2.5))


CANARIES_EXACT = [
    ("layer_uses_dz0", {"solver": [("dzi = dz[i]", "dzi = dz[0]")]}, "o1"),
    ("flux_row_skips_advection", {"solver": [("- 1j * u[i] * Lx - 1j * v[i] * Ly", "- 1j * u[i] * Lx")]}, "o1"),
    ("layer_applied_twice", {"solver": [("        fftpi = dum\n", "        fftpi = dum\n        if i == 0:\n            dum = a * fftpi + b * fftqi\n            fftqi = c * fftpi + d * fftqi\n            fftpi = dum\n")]}, "o1"),
    ("second_problem_starts_from_half_flux", {"solver": [("(zero, tfftq0[msk]), profiles, z, levels", "(zero, 0.5 * tfftq0[msk]), profiles, z, levels")]}, "o2"),
]
CANARIES_L = [
    ("top_bc_uses_Kx_for_y", {"solver": [("KyKzinv = Ky[nz - 1] * Kzinv", "KyKzinv = Kx[nz - 1] * Kzinv")]}),
    ("top_bc_from_bottom_node", {"solver": [("    Kzinv = 1.0 / Kz[nz - 1]\n    KxKzinv = Kx[nz - 1] * Kzinv", "    Kzinv = 1.0 / Kz[0]\n    KxKzinv = Kx[nz - 1] * Kzinv")]}),
    ("growing_branch", {"solver": [("alpha = -(tfftq2 - Kz[nz - 1] * eigval * tfftp2) / (\n            tfftq1 - Kz[nz - 1] * eigval * tfftp1", "alpha = -(tfftq2 + Kz[nz - 1] * eigval * tfftp2) / (\n            tfftq1 + Kz[nz - 1] * eigval * tfftp1")]}),
]


def canary_probe(sym, sc):
    return kindl.probe_body(PID, body, sym, sc)


def main(run):
    run.explanation = (
        "O1: the real ivp_solver executed in exact arithmetic over two layers whose thicknesses are formal "
        "power-series variables; z3 decides (all reals, Kz>0) that the Taylor coefficients of the swept and of the "
        "stored states are those of a consistent one-step scheme for p' = -q/Kz, q' = T p applied once per layer, "
        "bottom-up, with that layer's own thickness (left/right/mean sampling accepted). O2: the whole real solver "
        "in exact arithmetic on a 4x4 grid returns the prescribed flux at the surface for every retained mode. "
        "O3: for concrete profile families z3 decides for all sources that the spectral coefficients at the top "
        "node satisfy the decaying constant-coefficient continuation. O4: with a halo (every class, including widths that are "
        "not a whole number of cells) the result equals, for all sources, the halo-0 result on the explicitly padded source, "
        "so the components O1-O3 speak about are those of the padded periodic grid. The convergence rate itself is outside the "
        "claim (used only in replay against a DOP853 Riccati reference)."
    )
    run.assumptions = [
        "O1/O2: exact rationals for the literals of the source; Kz > 0, dz > 0; numba preserves Python semantics; exact DFT in Q(i); principal complex square root as an uninterpreted function with (er+i ei)^2 = radicand, er >= 0",
        "O3: real arithmetic with the production doubles as coefficients; tolerance 1e-9; pyfftw = mathematical DFT; Nyquist (self-conjugate) components excluded",
        "the theorem 'consistent + stable => first-order convergent', its constant and the >= 2.5 factor are outside the claim",
    ]
    kindl.validate_encoding(run)
    tasks = [("o1", None, None), ("o2", None, None)] + [(w, n, pt) for (n, pt, w) in CANARIES_EXACT]
    results = {}
    import concurrent.futures as cf
    import multiprocessing as mp

    with cf.ProcessPoolExecutor(max_workers=len(tasks), mp_context=mp.get_context("spawn")) as pool:
        for (which, name, res, exp) in pool.map(exact_task, tasks):
            if name is None:
                results[which] = res
                run.merge(exp)
            else:
                results[("canary", name)] = (which, res)
    r1 = results["o1"]
    if "unsat" not in r1.values():
        if not ("unknown" in r1.values() and "sat" not in r1.values()):
            rec = dict(obligation="O1_consistency_per_layer", samplings=r1, property=PID)
            res = replay(rec)
            rec["replay"] = res
            run.report(rec, res["confirmed"])
    else:
        # the samplings that are not the code's are expected to be refuted: not findings
        for k, v in r1.items():
            if v != "unsat":
                run.extra.setdefault("O1_other_samplings", {})[k] = v
        run.inconclusive = [i for i in run.inconclusive if not str(i.get("obligation", "")).startswith("O1_")]
    r2 = results["o2"]
    if "sat" in r2:
        rec = dict(obligation="O2_lower_boundary_flux_prescribed", results=r2, property=PID)
        res = replay(rec)
        rec["replay"] = res
        run.report(rec, res["confirmed"])
    scs = kindl.base_scenarios(run.tier, run.seed, halos=False)
    more = []
    for i, s_ in enumerate(scs):
        for j, pid in enumerate(["P1", "P2", "P3", "P4", "P5"]):
            if pid != s_["pid"]:
                z_, p_ = kindl.profiles(pid, s_["n"], seed=run.seed)
                if kindl.growth(z_, p_, s_["dx"], s_["dy"]) <= kindl.GROWTH_CAP[run.tier]:
                    more.append(dict(s_, pid=pid, modes=s_["modes"] if (i + j) % 2 else (2 * max(1, s_["nx"] // 2), 2 * max(1, s_["ny"] // 2))))
    scs = scs + more
    run.bounds = dict(O1="all reals, 2 layers, one wavenumber pair, series degree 2", O2="all reals, 4x4 grid, modes (2,2), 2-3 nodes",
                      O3=dict(grids=sorted({(s["ny"], s["nx"]) for s in scs}), profiles=sorted({s["pid"] for s in scs}), scenarios=len(scs)),
                      outside="the convergence theorem and its constants; rounding; resolution conditions")
    cex = run.pmap(worker, scs)
    kindl.handle_cex(run, PID, cex, replay, cap=2)
    hscs = [s_ for s_ in kindl.base_scenarios(run.tier, run.seed) if s_["halo"] not in (0.0,)]
    if run.tier == "quick":
        # every halo class once (default, whole cells in x only / y only, incommensurate, large, float-lossy)
        seen, keep = set(), []
        for s_ in hscs:
            nxe_, nye_, px_, py_ = kindl.padded(s_)
            hx, hy = (s_["halo"] or 0) / s_["dx"], (s_["halo"] or 0) / s_["dy"]
            cls = (s_["halo"] is None, s_.get("halo_class"), abs(hx - round(hx)) < 1e-6, abs(hy - round(hy)) < 1e-6)
            if cls not in seen and nxe_ * nye_ <= 400:
                seen.add(cls)
                keep.append(s_)
        hscs = keep
    run.bounds["O4"] = dict(scenarios=len(hscs), halos=sorted({str(s_["halo"]) for s_ in hscs}))
    cex = run.pmap(worker_halo, hscs)
    kindl.handle_cex(run, PID, cex, replay, cap=2)
    cscs = kindl.base_scenarios("quick", 0, halos=False)
    pick = [s for s in cscs if s["pid"] in ("P2", "P5")][:2]
    kindl.run_canaries(run, "vf.props.C01:canary_probe", CANARIES_L, pick)
    for (n, pt, w) in CANARIES_EXACT:
        which, r = results[("canary", n)]
        if r == "n/a":
            run.note("canary %s not applicable" % n)
            continue
        caught = r == "raised" or (("unsat" not in r.values()) if which == "o1" else ("sat" in r))
        run.canaries["total"] += 1
        if caught:
            run.canaries["caught"] += 1
        else:
            run.canaries["missed"].append(n)
            run.errors.append("canary %s was not noticed by the harness" % n)


def exact_task(args):
    from ..core import Run

    which, name, patch = args
    run = Run(PID)
    fn = o1 if which == "o1" else o2
    try:
        res = fn(run, patch=patch, account=name is None)
    except KeyError:
        res = "n/a"
    except Exception:
        if name is None:
            import traceback

            run.errors.append("exact part %s raised: %s" % (which, traceback.format_exc()[-1200:]))
            res = {} if which == "o1" else []
        else:
            res = "raised"
    return which, name, res, run.export()
