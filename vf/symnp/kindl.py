"""Shared machinery of the kind-L checks: the real solver source executed on
affine forms, concrete profile families, growth bound, form-equality queries,
encoding validation against the real package."""
import logging
import os
import types

import numpy as np

from ..core import HarnessError
from . import affine as af
from .loader import Loader
from . import stubs

TOL_FLOAT = 1e-9

SOLVER_FUNCS = ("steady_state_transport_solver", "ivp_solver")


class Sym:
    """A private, symbolic instance of the repository's solver stack."""

    def __init__(self, run=None, mutate=None, record=True, patch=None, space=None):
        self.sp = space if space is not None else af.Space()
        sp = self.sp
        self.npshim = af.NPShim(sp)
        self.numba = stubs.numba_stub()
        self.fft_calls = []

        def fft2(x, norm="backward"):
            self.fft_calls.append(("fft2", np.shape(x), norm))
            return af.dft2(x, sp, False, norm)

        def ifft2(x, norm="backward"):
            self.fft_calls.append(("ifft2", np.shape(x), norm))
            return af.dft2(x, sp, True, norm)

        self.pyfftw = stubs.pyfftw_stub(fft2, ifft2)
        env = {
            "modules": {
                "numpy": self.npshim,
                "numba": self.numba,
                "pyfftw": self.pyfftw,
                "pyfftw.interfaces": self.pyfftw.interfaces,
                "pyfftw.interfaces.numpy_fft": self.pyfftw.interfaces.numpy_fft,
                "pyfftw.interfaces.cache": self.pyfftw.interfaces.cache,
                "atexit": stubs.atexit_stub(),
                "pathlib": stubs.pathlib_nofile(),
            },
            "mutate": mutate,
            "patch": patch or {},
        }
        self.loader = Loader(env, run=run)
        self.solver_mod = self.loader.load("solver")
        self.config = self.loader.load("config")
        self.fft_manager = self.loader.load("fft_manager")
        self.utils = self.loader.load("utils")
        self.S = self.solver_mod.steady_state_transport_solver
        if run is not None and record:
            self.loader.record("solver", *SOLVER_FUNCS)
            self.loader.record("utils", "parallelize", "point_measurement")
            self.loader.record(
                "fft_manager",
                "fft2",
                "ifft2",
                "get_fft_manager",
                "FFTManager.fft2",
                "FFTManager.ifft2",
                "FFTManager.__init__",
            )
            run.transforms = self.loader.transforms()
            run.stubs = [
                "pyfftw fft2/ifft2 = the mathematical DFT with numpy norm conventions "
                "(numpy.fft applied to the coefficient tensor); thread count, plan cache and "
                "wisdom have no effect",
                "numba.jit preserves the Python semantics of ivp_solver for both parallel flags; "
                "set_num_threads is a recorded no-op",
                "atexit.register, FFTW wisdom file: no-ops / absent",
                "logging: dropped",
            ]

    def field(self, shape, prefix="q"):
        return af.sym_field(self.sp, shape, prefix)

    def var(self, name):
        return self.sp.var(name)


# ---------------------------------------------------------------------------
# concrete profile families

_REAL = {}


def real_pkg():
    """The real, unmodified package (real numpy / pyfftw / numba)."""
    if "solver" not in _REAL:
        logging.disable(logging.CRITICAL)
        import importlib
        import sys

        src = os.path.join(os.environ.get("VERIF_REPO", "/repo"), "src")
        if src not in sys.path:
            sys.path.insert(0, src)
        for k in [k for k in sys.modules if k == "bldfm" or k.startswith("bldfm.")]:
            if not getattr(sys.modules[k], "__file__", "").startswith(src):
                del sys.modules[k]
        _REAL["solver"] = importlib.import_module("bldfm.solver")
        _REAL["pbl"] = importlib.import_module("bldfm.pbl_model")
        _REAL["utils"] = importlib.import_module("bldfm.utils")
        _REAL["config"] = importlib.import_module("bldfm.config")
    return types.SimpleNamespace(**_REAL)


def profiles(pid, n, zm=2.5, seed=0):
    """Concrete (z, (u, v, Kx, Ky, Kz)) with n layers up to the measurement
    height zm (the MOST families extend above it, as vertical_profiles does)."""
    if pid == "P1":  # constant, anisotropic, oblique wind
        z = np.linspace(0.05, zm, n + 1)
        o = np.ones(n + 1)
        return z, (2.5 * o, -1.2 * o, 1.6 * o, 0.9 * o, 0.6 * o)
    if pid == "P2":  # affine in z on a stretched grid, Kx != Ky != Kz
        s = np.linspace(0.0, 1.0, n + 1)
        z = 0.05 + (zm - 0.05) * (0.35 * s + 0.65 * s**2)
        t = (z - z[0]) / (z[-1] - z[0])
        return z, (1.0 + 2.5 * t, 0.8 - 1.9 * t, 0.5 + 1.5 * t, 0.7 + 0.6 * t, 0.15 + 0.9 * t)
    pbl = real_pkg().pbl
    if pid == "P3":  # MOST unstable
        return pbl.vertical_profiles(n, zm, (2.0, 1.1), ustar=0.35, mol=-40.0)
    if pid == "P4":  # MOST stable
        return pbl.vertical_profiles(n, zm, (-1.5, 2.0), ustar=0.25, mol=60.0)
    if pid == "P5":  # MOSTM, z0 forcing
        return pbl.vertical_profiles(n, zm, (2.2, -0.9), z0=0.05, mol=-80.0, closure="MOSTM")
    if pid == "P6":  # OAAHOC
        return pbl.vertical_profiles(n, zm, (1.8, 1.4), ustar=0.4, closure="OAAHOC", tke=0.8)
    if pid.startswith("R"):  # seeded random smooth positive profiles
        rng = np.random.default_rng(1000 * seed + int(pid[1:]))
        s = np.sort(np.concatenate([[0.0, 1.0], rng.random(n - 1)])) if n > 1 else np.array([0.0, 1.0])
        s = 0.5 * (s + np.linspace(0, 1, n + 1))
        z = 0.05 + (zm - 0.05) * s
        t = (z - z[0]) / (z[-1] - z[0])

        def smooth(lo, hi):
            a, b, c = rng.uniform(lo, hi, 3)
            return a + (b - a) * t + (c - a) * t * (1 - t)

        u, v = smooth(-3, 3), smooth(-3, 3)
        Kx, Ky, Kz = (np.abs(smooth(0.3, 2.0)) + 0.2 for _ in range(3))
        return z, (u, v, Kx, Ky, Kz)
    raise KeyError(pid)


def growth(z, prof, dx, dy):
    """max over retained wavenumbers of sum_i Re sqrt(-T_i/Kz_i) dz_i, using the
    grid Nyquist as the largest wavenumber."""
    u, v, Kx, Ky, Kz = (np.asarray(a, float) for a in prof)
    dz = np.diff(z)
    g = 0.0
    for lx in (0.0, np.pi / dx, -np.pi / dx):
        for ly in (0.0, np.pi / dy, -np.pi / dy):
            lam = np.sqrt((Kx * lx**2 + Ky * ly**2 + 1j * (u * lx + v * ly)) / Kz)
            g = max(g, float(np.sum(lam.real[:-1] * dz)))
    return g


# ---------------------------------------------------------------------------
# queries


def forms_equal(run, sp, lhs, rhs, obligation, scenario, tol=TOL_FLOAT, scale=None):
    """Decide  forall x in [-1,1]^V : lhs(x) == rhs(x)  (within tol * scale).
    Returns None if it holds, else the separating assignment {name: value}."""
    if np.shape(lhs) != np.shape(rhs):
        raise ValueError("shape mismatch %s vs %s" % (np.shape(lhs), np.shape(rhs)))
    if scale is None:
        scale = max(af.scale_of(rhs, sp), af.scale_of(lhs, sp), 1e-300)
    s1, box1 = af.top_row_query(sp, lhs, rhs, tol * scale)
    if s1 is not None:
        r = run.solve(s1, obligation, scenario)
        if r == "sat":
            return af.model_values(s1.model(), box1, sp)
    s, box, nterms = af.diff_query(sp, lhs, rhs, tol * scale)
    r = run.solve(s, obligation, scenario)
    if r == "sat":
        return af.model_values(s.model(), box, sp)
    return None


def twin_for(run, sp, what):
    """Vacuity twin of the form queries: the box itself is satisfiable and the
    query machinery separates two forms that do differ."""
    import z3

    x = sp.var("twin_probe_%d" % sp.dim)
    s, box, n = af.diff_query(sp, np.array([x], dtype=object), np.array([x * 0.5], dtype=object), 1e-9)
    return run.twin(s, what)


def concretize(arr, sp, values):
    """Evaluate an object array of affine forms at {name: value}."""
    C = af.coeffs(arr, sp)
    x = np.zeros(sp.dim)
    x[0] = 1.0
    for j, n in enumerate(sp.names):
        if j and n in values:
            x[j] = values[n]
    return C @ x


def field_from_model(values, shape, prefix="q"):
    q = np.zeros(shape)
    for idx in np.ndindex(*shape):
        q[idx] = values.get(prefix + "_" + "_".join(map(str, idx)), 0.0)
    return q


# ---------------------------------------------------------------------------
# encoding validation (Serval's practice): concrete inputs through both


def validate_encoding(run, cases=None, tol=1e-9):
    """Drive the shim with concrete inputs and compare with the real package."""
    real = real_pkg()
    rng = np.random.default_rng(12345)
    if cases is None:
        cases = [
            dict(ny=4, nx=6, dom=(30.0, 16.0), pid="P3", n=4, levels=[1, 4], modes=(6, 4), halo=7.0, fp=False, meas=(0.0, 0.0)),
            dict(ny=5, nx=4, dom=(20.0, 30.0), pid="P2", n=3, levels=3, modes=(4, 4), halo=None, fp=True, meas=(5.0, 12.0)),
            dict(ny=4, nx=4, dom=(24.0, 20.0), pid="P1", n=3, levels=[0, 2, 3], modes=(8, 8), halo=0.0, fp=False, meas=(6.0, 5.0), analytic=True),
            dict(ny=3, nx=5, dom=(25.0, 12.0), pid="P4", n=3, levels=[3, 1], modes=(4, 2), halo=5.0, fp=True, meas=(10.0, 4.0)),
        ]
    worst = 0.0
    for c in cases:
        z, prof = profiles(c["pid"], c["n"])
        q = rng.standard_normal((c["ny"], c["nx"]))
        kw = dict(
            modes=c["modes"], meas_pt=c["meas"], srf_bg_conc=0.7, footprint=c["fp"],
            analytic=c.get("analytic", False), halo=c["halo"], precision="double",
        )
        e0 = e1 = None
        try:
            g0, c0, f0 = real.solver.steady_state_transport_solver(q, z, prof, c["dom"], c["levels"], **kw)
        except Exception as e:
            e0 = type(e).__name__
        sym = Sym(record=False)
        qs = af.const_array(sym.sp, q)
        try:
            g1, c1, f1 = sym.S(qs, z, prof, c["dom"], c["levels"], **kw)
        except Exception as e:
            e1 = type(e).__name__
        if e0 or e1:
            # the code under test raises on this vector: the shim must raise alike
            if e0 != e1:
                raise HarnessError("encoding validation: real raises %s, shim raises %s on %s" % (e0, e1, c))
            run.validation["vectors"] += 1
            continue
        c1 = af.coeffs(c1, sym.sp)[..., 0].real
        f1 = af.coeffs(f1, sym.sp)[..., 0].real
        for a, b in ((c0, c1), (f0, f1)):
            if np.shape(a) != np.shape(b):
                raise HarnessError("encoding validation: shape %s vs %s in %s" % (np.shape(a), np.shape(b), c))
            err = float(np.abs(a - b).max() / max(np.abs(a).max(), 1e-300))
            worst = max(worst, err)
        for a, b in zip(g0, g1):
            if np.shape(a) != np.shape(b) or not np.allclose(np.asarray(a, float), np.asarray(b, float), rtol=1e-12, atol=0):
                raise HarnessError("encoding validation: grid mismatch in %s" % c)
        run.validation["vectors"] += 1
    run.validation["max_rel_err"] = max(run.validation["max_rel_err"], worst)
    if worst > tol:
        raise HarnessError("encoding validation failed: shim vs real solver differ by %.3e" % worst)


# ---------------------------------------------------------------------------
# canaries: in-memory source mutants the harness must notice


def _canary_job(args):
    import importlib

    name, patch, probe_path, scs = args
    modname, fn = probe_path.split(":")
    probe = getattr(importlib.import_module(modname), fn)
    applicable, caught = False, False
    for sc in scs:
        try:
            sym = Sym(record=False, patch=patch)
        except KeyError:
            break
        applicable = True
        try:
            if probe(sym, sc):
                caught = True
                break
        except Exception:
            caught = True  # the mutant makes the code raise: noticed as well
            break
    return name, applicable, caught


def run_canaries(run, probe_path, canaries, scs):
    """canaries: [(name, {module: [(old, new)]})]; probe(sym, scenario) -> True
    when the property's query is sat on the mutated source."""
    import concurrent.futures as cf
    import multiprocessing as mp

    jobs = [(n, patch, probe_path, scs) for (n, patch) in canaries]
    if not jobs:
        return
    with cf.ProcessPoolExecutor(max_workers=min(8, len(jobs)), mp_context=mp.get_context("spawn")) as pool:
        for name, applicable, caught in pool.map(_canary_job, jobs):
            if not applicable:
                run.note("canary %s not applicable to the current source (anchor text absent)" % name)
                continue
            run.canaries["total"] += 1
            if caught:
                run.canaries["caught"] += 1
            else:
                run.canaries["missed"].append(name)
                run.errors.append("canary %s was not noticed by the harness" % name)


def quick_sat(sp, lhs, rhs, tol=TOL_FLOAT):
    """Unaccounted form comparison (canaries only)."""
    sc = tol * max(af.scale_of(rhs, sp), af.scale_of(lhs, sp), 1e-300)
    s1, box1 = af.top_row_query(sp, lhs, rhs, sc)
    if s1 is not None:
        s1.set("timeout", 60000)
        if str(s1.check()) == "sat":
            return True
    s, box, nt = af.diff_query(sp, lhs, rhs, sc)
    s.set("timeout", 60000)
    return str(s.check()) == "sat"


class Found(Exception):
    pass


class _StopList(list):
    def append(self, x):
        list.append(self, x)
        raise Found()


def probe_body(pid, body, sym, sc):
    """Canary probe: run a property's body until its first counterexample."""
    from ..core import Run

    run = Run(pid)
    run.cex = _StopList()
    try:
        body(run, sym, sc)
    except Found:
        return True
    return bool(run.cex)


# ---------------------------------------------------------------------------
# scenario generator shared by the kind-L checks

GROWTH_CAP = {"quick": 12.0, "thorough": 14.0}


def padded(sc):
    xmx, ymx = sc["nx"] * sc["dx"], sc["ny"] * sc["dy"]
    h = sc["halo"] if sc["halo"] is not None else max(xmx, ymx)
    # whole cells covered by the halo (floor, robust to float division)
    px, py = int(h / sc["dx"] + 1e-9), int(h / sc["dy"] + 1e-9)
    return sc["nx"] + 2 * px, sc["ny"] + 2 * py, px, py


def base_scenarios(tier, seed, max_cells=None, halos=True):
    """thorough = three rotations of the (profile, layers, modes, levels, precision) assignment over the grid x halo table"""
    if tier != "thorough":
        return _base_scenarios(tier, seed, max_cells, halos)
    out, seen = [], set()
    for off in (0, 1, 2):
        for sc in _base_scenarios(tier, seed + off, max_cells, halos, profile_seed=seed):
            key = repr(sorted((k, v) for k, v in sc.items() if k not in ("growth",)))
            if key not in seen:
                seen.add(key)
                out.append(sc)
    return out


def _base_scenarios(tier, seed, max_cells=None, halos=True, profile_seed=None):
    """Concrete (grid, profile, layers, halo, modes, levels, precision) tuples:
    the unrolling bounds of the kind-L checks.  dx != dy everywhere; every halo
    class; mode counts below / at / above the padded size; level sets single /
    pair / full column; both precisions."""
    if tier == "quick":
        grids = [(3, 4), (4, 4), (4, 6), (5, 3), (2, 5), (6, 5)]
        pids = ["P1", "P2", "P3", "P4", "P5"]
        ns = [2, 3, 5]
        cap_cells = 700
    else:
        grids = [(ny, nx) for ny in range(1, 9) for nx in range(1, 9) if (ny + 2 * nx) % 3 != 0 or ny == nx]
        pids = ["P1", "P2", "P3", "P4", "P5", "P6"] + ["R%d" % k for k in range(8)]
        ns = [1, 2, 3, 4, 6, 9]
        cap_cells = 3000
    if max_cells:
        grids = [g for g in grids if g[0] * g[1] <= max_cells]
    out = []
    k = seed
    for gi, (ny, nx) in enumerate(grids):
        dx = 10.0 + 2.0 * (gi % 3)
        dy = 9.0 + 2.0 * ((gi + 1) % 3) + (1.0 if gi % 2 else 0.0)
        if dx == dy:
            dy += 1.5
        hl = [None, 0.0, 2 * dx, 1.3 * dx + 0.1, 2 * dx * dy / dx if False else dx * 2 + 0.5 * dy, 2.7 * max(dx, dy)]
        # classes: default, zero, commensurate in x (not y), incommensurate both,
        # incommensurate both (other widths), large incommensurate
        hl[4] = dy * 2  # commensurate in y only
        if not halos:
            hl = [0.0]
        for halo in hl:
            for attempt in range(4):
                pid = pids[k % len(pids)]
                n = ns[(k // 2) % len(ns)]
                k += 1
                pseed = seed if profile_seed is None else profile_seed
                z, prof = profiles(pid, n, seed=pseed)
                if growth(z, prof, dx, dy) <= GROWTH_CAP[tier]:
                    break
            else:
                continue
            sc = dict(ny=ny, nx=nx, dx=dx, dy=dy, pid=pid, n=n, halo=halo, seed=pseed)
            nxe, nye, px, py = padded(sc)
            if nxe * nye > cap_cells:
                continue
            ms = [
                (max(2, (nxe // 2) * 2), max(2, (nye // 2) * 2)),
                (max(2, (nxe // 4) * 2), max(2, (nye // 4) * 2)),
                (nxe + 2 + nxe % 2, nye + 4 + nye % 2),
                (max(2, ((nxe - 1) // 2) * 2), max(2, (nye // 3) * 2)),
            ]
            sc["modes"] = ms[k % len(ms)]
            sc["levels"] = [n] if k % 3 == 0 else ([0, n] if k % 3 == 1 else list(range(n + 1)))
            sc["precision"] = "single" if k % 4 == 0 else "double"
            sc["growth"] = round(growth(z, prof, dx, dy), 2)
            out.append(sc)
    if halos:
        # a halo that IS a whole number of cells but whose float quotient falls just below it
        # (30.9 / 10.3 = 2.9999999999999996): pad width and every shift must agree on 3 cells
        for (ny, nx, dx, dy, halo) in [(4, 4, 10.3, 11.5, 30.9), (3, 4, 12.0, 10.3, 30.9)] + ([] if tier == "quick" else [(5, 8, 10.3, 11.5, 30.9), (4, 2, 11.5, 10.3, 30.9)]):
            dxs, dys = (nx * dx) / nx, (ny * dy) / ny
            assert int(halo / dxs) != int(halo / dxs + 1e-9) or int(halo / dys) != int(halo / dys + 1e-9)
            for attempt in range(6):
                pid = pids[k % len(pids)]
                n = ns[(k // 2) % len(ns)]
                k += 1
                pseed = seed if profile_seed is None else profile_seed
                z, prof = profiles(pid, n, seed=pseed)
                if growth(z, prof, dx, dy) <= GROWTH_CAP[tier]:
                    break
            else:
                continue
            sc = dict(ny=ny, nx=nx, dx=dx, dy=dy, pid=pid, n=n, halo=halo, seed=pseed)
            nxe, nye, px, py = padded(sc)
            sc["modes"] = (max(2, (nxe // 2) * 2), max(2, (nye // 2) * 2)) if k % 2 else (nxe + 2 + nxe % 2, nye + 4 + nye % 2)
            sc["levels"] = [0, n] if k % 2 else list(range(n + 1))
            sc["precision"] = "double"
            sc["growth"] = round(growth(z, prof, dx, dy), 2)
            sc["halo_class"] = "whole cells, float-lossy quotient"
            out.append(sc)
    return out


# ---------------------------------------------------------------------------
# small helpers shared by the property modules

REPLAY_TOL = {"double": 1e-7, "single": 5e-4}


def dom_of(sc):
    return (sc["nx"] * sc["dx"], sc["ny"] * sc["dy"])


def lv3(a, sc, shape=None):
    """View a solver output as (nlevels, ny, nx) whatever the squeeze did."""
    nl = len(sc["levels"]) if not np.isscalar(sc["levels"]) else 1
    a = np.asarray(a) if not isinstance(a, np.ndarray) else a
    if shape is None:
        shape = (sc["ny"], sc["nx"])
    return np.reshape(a, (nl,) + tuple(shape))


def sym_solve(sym, sc, q, **over):
    kw = dict(modes=tuple(sc["modes"]), halo=sc["halo"], precision=sc["precision"])
    kw.update(over)
    dom = kw.pop("domain", dom_of(sc))
    levels = kw.pop("levels", sc["levels"])
    zp = kw.pop("zprof", None)
    z, prof = zp if zp is not None else profiles(sc["pid"], sc["n"], seed=sc.get("seed", 0))
    return sym.S(q, z, prof, dom, levels, **kw)


def real_solve(sc, q, **over):
    real = real_pkg()
    kw = dict(modes=tuple(sc["modes"]), halo=sc["halo"], precision=sc["precision"])
    kw.update(over)
    dom = kw.pop("domain", dom_of(sc))
    levels = kw.pop("levels", sc["levels"])
    zp = kw.pop("zprof", None)
    z, prof = zp if zp is not None else profiles(sc["pid"], sc["n"], seed=sc.get("seed", 0))
    return real.solver.steady_state_transport_solver(np.asarray(q, float), z, prof, dom, levels, **kw)


def rel_err(a, b):
    a, b = np.asarray(a, float), np.asarray(b, float)
    if a.shape != b.shape:
        return float("inf")
    return float(np.abs(a - b).max() / max(np.abs(a).max(), np.abs(b).max(), 1e-300))


def special_fields(ny, nx):
    """sources a data-dependent branch may single out (used when a run leaves the affine domain: the
    NonAffine event says the result is not an affine function of the source; these make it visible)"""
    rng = np.random.default_rng(21)
    r = rng.standard_normal((ny, nx))
    half = np.zeros((ny, nx))
    half[:, : max(1, nx // 2)] = 1.75
    one = np.zeros((ny, nx))
    one.flat[(ny * nx) // 2] = 1.0
    return [np.full((ny, nx), 1.75), half, r * 1e-12, r * 1e-9, r - r.mean(), one, r]


def guarded_worker(pid, body, sc, on_nonaffine=None):
    """Common worker scaffold: body(run, sym, sc) fills run (and run.cex)."""
    import traceback

    from ..core import Run

    run = Run(pid)
    run.cex = []
    try:
        sym = Sym(run)
        run.scenarios += 1
        body(run, sym, sc)
        twin_for(run, sym.sp, "%s scenario" % pid)
    except af.NonAffine as e:
        recs = on_nonaffine(sc, e) if on_nonaffine else None
        if recs:
            # a data-dependent branch / threshold / non-linear operation on the source: a violation candidate
            # for this property too; the replay runs the property's own oracle on special sources
            run.queries["sat"] += 1
            o = run.ob("result_is_an_affine_function_of_the_source")
            o["queries"] += 1
            o["sat"] += 1
            run.cex += recs
        else:
            run.errors.append("solver left the affine domain: %s (scenario %s)" % (e, sc))
    except Exception:
        run.errors.append("exception in scenario %s: %s" % (sc, traceback.format_exc()[-1800:]))
    return run.export()


def handle_cex(run, pid, cex, replay, cap=6):
    """Replay (at most cap) counterexamples on the real package and report."""
    done = {}
    for rec in cex:
        ob = rec.get("obligation")
        if done.get(ob, 0) >= 2 or sum(done.values()) >= cap:
            continue
        done[ob] = done.get(ob, 0) + 1
        try:
            res = replay(rec)
        except Exception as e:  # the real code raising on a valid input is itself a finding for some properties
            import traceback

            res = {"confirmed": False, "exception": traceback.format_exc()[-800:]}
        rec = dict(rec, property=pid, replay=res, cmd="./check %s --replay <this file>" % pid)
        run.report(rec, bool(res.get("confirmed")))
