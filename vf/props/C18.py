"""C18 - NetCDF export/import is lossless and keeps every label attached.

Kind L/D.  The repository's io.save_footprints_to_netcdf and
load_footprints_from_netcdf are executed over an xarray contract stub with
EVERY entry of every footprint / concentration array, every met value and
every tower latitude / longitude / height a distinct solver variable.  After
save -> load, z3 decides that footprint[t, i(, k), y, x] IS the variable stored
for tower i, step t (same for concentration), that the per-step met values are
that step's params, that tower[i] is the i-th name and tower_lat/lon/z[i] the
values of the tower OF THAT NAME, that coordinates x, y, z equal the grid's,
time labels are str(timestamp), selection by name/label returns that slab, and
that the encoding passed to the writer satisfies the stub's lossless predicate
and the arrays are stored as float64.

xarray stub contract (validated on every run against the real xarray/netCDF4
with one concrete result set spanning 1e-310..1e300): float64 / str variables
written with an encoding containing only zlib / complevel / shuffle /
chunksizes come back bit-identical and in the same order."""
import itertools
import os
import types

import numpy as np
import z3

from ..core import HarnessError
from ..symnp import exact as ex
from ..symnp import kindl
from ..symnp.loader import Loader

PID = "C18"
LOSSLESS_KEYS = {"zlib", "complevel", "shuffle", "chunksizes", "fletcher32", "contiguous"}


class TaggedNP(ex.XNP):
    """exact-mode numpy with the storage dtype of new arrays recorded"""

    def zeros(self, shape, dtype=float, **k):
        a = self._filled(shape, 0, float)
        a = a.view(StoreArr)
        a.store = np.dtype(dtype).name
        return a


class StoreArr(ex.XArr):
    store = "float64"

    def __array_finalize__(self, obj):
        self.store = getattr(obj, "store", "float64")


class FakePath:
    files = {}

    def __init__(self, p):
        self.p = str(p)

    @property
    def parent(self):
        return FakePath(os.path.dirname(self.p))

    def mkdir(self, *a, **k):
        pass

    def exists(self):
        return self.p in FakePath.files

    def __str__(self):
        return self.p

    def __fspath__(self):
        return self.p


class DS:
    """xarray.Dataset contract stub"""

    def __init__(self, data_vars=None, coords=None, attrs=None):
        self.vars = {}
        self.coords = {}
        self.attrs = dict(attrs or {})
        for k, v in (coords or {}).items():
            dims, data = v[0], v[1]
            self.coords[k] = (dims if isinstance(dims, (list, tuple)) else (dims,), data)
        for k, v in (data_vars or {}).items():
            dims, data = v[0], v[1]
            self.vars[k] = (tuple(dims), data)
        self.encoding_used = None
        self.problems = []

    def to_netcdf(self, path, encoding=None, **kw):
        self.encoding_used = dict(encoding or {})
        for var, enc in self.encoding_used.items():
            extra = set(enc) - LOSSLESS_KEYS
            if extra:
                self.problems.append("encoding of %s contains lossy / type-changing keys %s" % (var, sorted(extra)))
        for k, (dims, data) in self.vars.items():
            st = getattr(data, "store", "float64")
            if isinstance(data, np.ndarray) and data.dtype == object and st != "float64":
                self.problems.append("variable %s is stored as %s" % (k, st))
        if kw:
            self.problems.append("to_netcdf called with extra arguments %s" % sorted(kw))
        FakePath.files[str(path)] = self

    @property
    def sizes(self):
        out = {}
        for k, (dims, data) in self.coords.items():
            out[dims[0]] = len(data)
        return out

    def __getitem__(self, k):
        return self.vars[k] if k in self.vars else self.coords[k]


def xr_stub():
    def open_dataset(path, **kw):
        if str(path) not in FakePath.files:
            raise FileNotFoundError(str(path))
        return FakePath.files[str(path)]

    return types.SimpleNamespace(Dataset=DS, open_dataset=open_dataset)


def load_io(patch=None):
    env = ex.exact_env(extra_modules={"xarray": xr_stub(), "pathlib": types.SimpleNamespace(Path=FakePath)})
    env["modules"]["numpy"] = TaggedNP()
    env["exact"] = False  # io.py has no float literals that matter; keep the source as is
    env["builtins"] = {}
    env["patch"] = patch or {}
    L = Loader(env)
    return L, L.load("io")


NAMES = ["north", "east", "centre"]


def scenario_list(tier):
    out = []
    tmax = 3 if tier == "quick" else 4
    for nt, ns, three_d, z0_forcing, int_ts in itertools.product(range(1, tmax + 1), range(1, tmax + 1), (False, True), (False, True), (False, True)):
        if tier == "quick" and (nt + ns + three_d + z0_forcing + int_ts) % 2 == 1 and nt * ns > 2:
            continue
        out.append(dict(towers=nt, steps=ns, three_d=three_d, z0=z0_forcing, int_ts=int_ts))
    # output levels requested in descending order (the solver supports any order)
    out += [dict(towers=2, steps=2, three_d=True, z0=False, int_ts=False, unsorted_levels=True),
            dict(towers=1, steps=1, three_d=True, z0=True, int_ts=True, unsorted_levels=True)]
    return out


def build(c, sc):
    """symbolic result set + config"""
    ny, nx = 2, 3
    nlev = 2 if sc["three_d"] else None
    names = (NAMES + ["west"])[: sc["towers"]]
    x = np.arange(nx) * 5.0
    y = np.arange(ny) * 4.0
    zc = np.array([7.25, 1.5]) if sc.get("unsorted_levels") else np.array([1.5, 7.25])
    towers = [types.SimpleNamespace(name=n, lat=c.real("lat_%s" % n), lon=c.real("lon_%s" % n), z_m=c.real("zm_%s" % n), x=0.0, y=0.0) for n in names]
    results = {}
    want = {}
    for i, n in enumerate(names):
        lst = []
        for t in range(sc["steps"]):
            shape = (nlev, ny, nx) if nlev else (ny, nx)
            f = np.empty(shape, dtype=object)
            g = np.empty(shape, dtype=object)
            for idx in np.ndindex(shape):
                f[idx] = c.real("f_%s_%d_%s" % (n, t, "_".join(map(str, idx))))
                g[idx] = c.real("c_%s_%d_%s" % (n, t, "_".join(map(str, idx))))
            if nlev:
                Z, Y, X = np.meshgrid(zc, y, x, indexing="ij")
            else:
                Y, X = np.meshgrid(y, x, indexing="ij")
                Z = np.full((ny, nx), zc[1])
            params = dict(ustar=None if sc["z0"] else c.real("ustar_%d" % t), mol=c.real("mol_%d" % t),
                          wind_speed=c.real("ws_%d" % t), wind_dir=c.real("wd_%d" % t))
            if sc["z0"]:
                params["z0"] = c.real("z0")
            ts = (100 + t) if sc["int_ts"] else "2024-06-15T%02d:00:00" % (12 + t)
            lst.append(dict(grid=(X, Y, Z), conc=g.view(ex.XArr), flx=f.view(ex.XArr), tower_name=n, tower_xy=(0.0, 0.0), timestamp=ts, params=params))
        results[n] = lst
    config = types.SimpleNamespace(towers=towers, solver=types.SimpleNamespace(closure="MOST"),
                                   domain=types.SimpleNamespace(xmax=15.0, ymax=8.0))
    return results, config, dict(x=x, y=y, z=zc if nlev else None, names=names)


def check(run, mod, sc, account=True):
    """-> list of failure descriptions (each backed by a sat query or a concrete mismatch)"""
    c = ex.new_ctx()
    FakePath.files.clear()
    results, config, meta = build(c, sc)
    mod.save_footprints_to_netcdf(results, config, "/out/fp.nc")
    ds = mod.load_footprints_from_netcdf("/out/fp.nc")
    fails = list(ds.problems)
    names = meta["names"]
    bad = []

    def same(a, b):
        if a is None or b is None:
            return None if (a is None and b is None) else z3.BoolVal(True)
        return ex.zt(a) != ex.zt(b)

    for var, key in (("footprint", "flx"), ("concentration", "conc")):
        if var not in ds.vars:
            fails.append("variable %s missing" % var)
            continue
        dims, data = ds.vars[var]
        want_dims = ("time", "tower", "z", "y", "x") if sc["three_d"] else ("time", "tower", "y", "x")
        if tuple(dims) != want_dims:
            fails.append("%s dims %s" % (var, dims))
            continue
        for i, n in enumerate(names):
            for t in range(sc["steps"]):
                src = results[n][t][key]
                if np.shape(data[t, i]) != np.shape(src):
                    fails.append("%s[%d,%d] shape" % (var, t, i))
                    continue
                for idx in np.ndindex(np.shape(src)):
                    bad.append(same(data[t, i][idx], src[idx]))
    # labels
    tw = list(ds.coords.get("tower", ((), []))[1])
    if tw != names:
        fails.append("tower coordinate %s, configuration order %s" % (tw, names))
    want_time = [str(r["timestamp"]) for r in results[names[0]]]
    if list(ds.coords.get("time", ((), []))[1]) != want_time:
        fails.append("time coordinate %s, expected %s" % (list(ds.coords.get("time", ((), []))[1]), want_time))
    for cname, wantv in (("x", meta["x"]), ("y", meta["y"]), ("z", meta["z"])):
        if wantv is None:
            continue
        got = ds.coords.get(cname)
        if got is None or not np.array_equal(np.asarray(got[1], float), wantv):
            fails.append("coordinate %s" % cname)
    by_name = {t.name: t for t in config.towers}
    for var, attr in (("tower_lat", "lat"), ("tower_lon", "lon"), ("tower_z", "z_m")):
        if var not in ds.vars:
            fails.append("variable %s missing" % var)
            continue
        data = ds.vars[var][1]
        for i, n in enumerate(tw[: len(data)]):
            if n in by_name:
                bad.append(same(data[i], getattr(by_name[n], attr)))
    for var in ("ustar", "mol", "wind_speed", "wind_dir"):
        if var not in ds.vars:
            fails.append("variable %s missing" % var)
            continue
        data = ds.vars[var][1]
        for t in range(sc["steps"]):
            p = results[names[0]][t]["params"][var]
            got = data[t]
            if p is None:
                continue  # None -> NaN accepted
            bad.append(same(got, p))
    bad = [b for b in bad if b is not None]
    s = ex.solver_for(c)
    s.add(z3.Or(bad) if bad else z3.BoolVal(False))
    scn = dict(sc)
    if account:
        r = run.solve(s, "loaded_value_is_the_stored_value_of_that_tower_step_cell", scn)
        run.twin(ex.solver_for(c), "C18")
    else:
        s.set("timeout", 60000)
        r = str(s.check())
    if r == "sat":
        fails.append("a loaded value differs from the value stored for that (tower, step, cell) / label")
    # the structural (concrete) obligations are recorded as decided too
    if account:
        o = run.ob("labels_coordinates_encoding")
        o["queries"] += 1
        o["sat" if [f for f in fails if "differs" not in f] else "unsat"] += 1
        run.queries["sat" if [f for f in fails if "differs" not in f] else "unsat"] += 1
    return fails


def real_roundtrip(sc=None, perm=False):
    """the real io functions with the real xarray / netCDF4 on one concrete result set -> list of discrepancies"""
    import tempfile

    import bldfm.io as IO

    sc = sc or dict(towers=3, steps=2, three_d=True, z0=False, int_ts=False)
    rng = np.random.default_rng(1)
    names = (NAMES + ["west"])[: sc["towers"]]
    ny, nx = 2, 3
    nlev = 2 if sc["three_d"] else None
    x, y, zc = np.arange(nx) * 5.0, np.arange(ny) * 4.0, (np.array([7.25, 1.5]) if sc.get("unsorted_levels") else np.array([1.5, 7.25]))
    towers = [types.SimpleNamespace(name=n, lat=50.0 + i * 0.013, lon=11.0 - i * 0.021, z_m=10.0 + 3 * i, x=0.0, y=0.0) for i, n in enumerate(names)]
    specials = [1e-310, -1e-310, 1e300, -1e300, 0.0, -0.0, float(np.float32(0.1)), 5e-324, 1.7976931348623157e308]
    results = {}
    for n in names:
        lst = []
        for t in range(sc["steps"]):
            shape = (nlev, ny, nx) if nlev else (ny, nx)
            f = rng.standard_normal(shape) * 10.0 ** rng.integers(-200, 200, shape)
            g = rng.standard_normal(shape)
            f.flat[: min(f.size, len(specials))] = specials[: min(f.size, len(specials))]
            if nlev:
                Z, Y, X = np.meshgrid(zc, y, x, indexing="ij")
            else:
                Y, X = np.meshgrid(y, x, indexing="ij")
                Z = np.full((ny, nx), zc[1])
            params = dict(ustar=None if sc["z0"] else 0.3 + 0.01 * t, mol=-50.0 - t, wind_speed=3.0 + t, wind_dir=200.0 + t)
            if sc["z0"]:
                params["z0"] = 0.05
            ts = (100 + t) if sc["int_ts"] else "2024-06-15T%02d:00:00" % (12 + t)
            lst.append(dict(grid=(X, Y, Z), conc=g, flx=f, tower_name=n, tower_xy=(0.0, 0.0), timestamp=ts, params=params))
        results[n] = lst
    config = types.SimpleNamespace(towers=towers, solver=types.SimpleNamespace(closure="MOST"), domain=types.SimpleNamespace(xmax=15.0, ymax=8.0))
    d = tempfile.mkdtemp(prefix="vfc18_")
    path = os.path.join(d, "fp.nc")
    IO.save_footprints_to_netcdf(results, config, path)
    ds = IO.load_footprints_from_netcdf(path)
    bad = []
    try:
        if list(ds["tower"].values) != names:
            bad.append("tower order %s" % list(ds["tower"].values))
        by_name = {t.name: t for t in towers}
        for i, n in enumerate(list(ds["tower"].values)):
            for var, attr in (("tower_lat", "lat"), ("tower_lon", "lon"), ("tower_z", "z_m")):
                if float(ds[var].values[i]) != float(getattr(by_name[n], attr)):
                    bad.append("%s of %s" % (var, n))
        for n in names:
            for t in range(sc["steps"]):
                label = str(results[n][t]["timestamp"])
                sel = ds.sel(tower=n, time=label)
                for var, key in (("footprint", "flx"), ("concentration", "conc")):
                    a, b = np.asarray(sel[var].values), np.asarray(results[n][t][key])
                    if a.dtype != np.float64 or a.shape != b.shape or a.tobytes() != np.asarray(b, np.float64).tobytes():
                        bad.append("%s of (%s, %s) not bit-identical" % (var, n, label))
                for var in ("ustar", "mol", "wind_speed", "wind_dir"):
                    p = results[n][t]["params"][var]
                    v = float(ds[var].sel(time=label).values)
                    if p is not None and v != p:
                        bad.append("%s at %s" % (var, label))
        if not np.array_equal(ds["x"].values, x) or not np.array_equal(ds["y"].values, y):
            bad.append("x/y coordinates")
        if nlev and not np.array_equal(ds["z"].values, zc):
            bad.append("z coordinate")
        if nlev:
            for k, zv in enumerate(zc):
                a = np.asarray(ds["footprint"].sel(tower=names[0], time=str(results[names[0]][0]["timestamp"]), z=zv).values)
                if a.tobytes() != np.asarray(results[names[0]][0]["flx"][k], np.float64).tobytes():
                    bad.append("footprint selected by height %s is not level slot %d" % (zv, k))
    finally:
        ds.close()
    return bad


def replay(rec):
    bad = []
    for sc in (rec.get("scenario"), dict(towers=3, steps=2, three_d=True, z0=False, int_ts=False), dict(towers=2, steps=3, three_d=False, z0=True, int_ts=True),
               dict(towers=2, steps=2, three_d=True, z0=False, int_ts=False, unsorted_levels=True)):
        if sc:
            bad += real_roundtrip(sc)
    return dict(discrepancies=bad[:10], confirmed=bool(bad))


CANARIES = [
    ("towers_sorted", {"io": [("tower_names = list(results.keys())", "tower_names = sorted(results.keys())")]}),
    ("time_tower_swapped", {"io": [("flx_data[t, ti] = r[\"flx\"]", "flx_data[min(ti, n_time - 1), min(t, n_towers - 1)] = r[\"flx\"]")]}),
    ("conc_from_flx", {"io": [("conc_data[t, ti] = r[\"conc\"]", "conc_data[t, ti] = r[\"flx\"]")]}),
    ("lossy_encoding", {"io": [("\"footprint\": {\"zlib\": True, \"complevel\": 4},", "\"footprint\": {\"zlib\": True, \"complevel\": 4, \"dtype\": \"float32\"},")]}),
    ("float32_storage", {"io": [("flx_data = np.zeros((n_time, n_towers, nz_out, ny, nx))", "flx_data = np.zeros((n_time, n_towers, nz_out, ny, nx), dtype=np.float32)")]}),
    ("met_from_last_tower", {"io": [("if ti == 0:  # met params", "if ti == n_towers - 1 and t == 0:  # met params")]}),
    ("coordinates_through_unique", {"io": [("        z = Z_coord[:, 0, 0]\n", "        z = np.unique(Z_coord)\n")]}),
    ("mol_into_wind_dir", {"io": [("wind_dir_data[t] = r[\"params\"][\"wind_dir\"]", "wind_dir_data[t] = r[\"params\"][\"mol\"]")]}),
]


def main(run):
    run.explanation = (
        "The real save/load functions executed over an xarray contract stub with every stored number a distinct z3 variable: after "
        "save -> load z3 decides, per result-set shape (towers x steps x 2-D/3-D x ustar/z0 forcing x string/int timestamps), that every "
        "loaded entry is the variable stored for that tower, step, level and cell, that tower metadata belong to the tower of that name "
        "and met values to that step; labels, coordinates, storage dtype and the encoding's lossless predicate are checked concretely."
    )
    run.assumptions = [
        "xarray/netCDF4 contract: float64 and str variables written with an encoding of only zlib/complevel/shuffle/chunksizes come back "
        "bit-identical and in order (validated on every run against the real libraries with values 1e-310..1e300, -0.0, denormals, a float32-derived value)",
        "results arrive keyed in configuration order (as the drivers produce them); labels unique",
        "None -> NaN for the friction velocity of roughness-length forcing is accepted",
        "HDF5 + zlib themselves are outside the claim",
    ]
    # contract validation of the stub against the real libraries
    bad = real_roundtrip()
    bad += real_roundtrip(dict(towers=2, steps=3, three_d=False, z0=True, int_ts=True))
    bad += real_roundtrip(dict(towers=2, steps=2, three_d=True, z0=False, int_ts=False, unsorted_levels=True))
    run.validation["vectors"] += 3
    if bad:
        rec = dict(property=PID, obligation="real_roundtrip", discrepancies=bad[:10])
        run.report(rec, True)
    L, mod = load_io()
    L.run = run
    L.record("io", "save_footprints_to_netcdf", "load_footprints_from_netcdf")
    run.transforms = L.transforms()
    run.stubs = ["xarray.Dataset / to_netcdf / open_dataset -> contract stub", "pathlib.Path -> in-memory", "numpy.zeros -> object arrays tagged with the requested dtype"]
    scs = scenario_list(run.tier)
    run.bounds = dict(scenarios=len(scs), towers="1..%d" % max(s["towers"] for s in scs), steps="1..%d" % max(s["steps"] for s in scs),
                      grid="2x3 cells, 2 levels when 3-D", tower_names=NAMES)
    for sc in scs:
        run.scenarios += 1
        try:
            fails = check(run, mod, sc)
        except Exception as e:
            import traceback

            fails = ["exception: %s" % traceback.format_exc()[-600:]]
        if fails:
            res = replay(dict(scenario=sc))
            run.report(dict(property=PID, obligation="netcdf_roundtrip", scenario=sc, failures=fails[:6], replay=res), res["confirmed"])
            if len(run.violations) + len(run.errors) >= 3:
                break
        run.sample(dict(scenario=sc, variables=sc["towers"] * sc["steps"] * (12 if sc["three_d"] else 6) * 2), cap=3)
    for name, patch in CANARIES:
        try:
            Lc, mc = load_io(patch)
        except KeyError:
            run.note("canary %s not applicable" % name)
            continue
        caught = False
        for sc in (dict(towers=3, steps=2, three_d=True, z0=False, int_ts=False), dict(towers=2, steps=3, three_d=False, z0=True, int_ts=True),
                   dict(towers=2, steps=2, three_d=True, z0=False, int_ts=False, unsorted_levels=True)):
            try:
                if check(run, mc, sc, account=False):
                    caught = True
                    break
            except Exception:
                caught = True
                break
        run.canaries["total"] += 1
        if caught:
            run.canaries["caught"] += 1
        else:
            run.canaries["missed"].append(name)
            run.errors.append("canary %s was not noticed by the harness" % name)
