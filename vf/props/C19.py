"""C19 - the Kormann-Meixner reference equals its published closed form.

Kind U, exact arithmetic.  The repository's estimateFootprint, _phiM, _phiC,
_psiM, _mParam, _nParam and estimateZ0 are executed with zm, z0, ws, ustar,
L (sign split), sigma_v, the grid resolution AND the position of a grid cell
relative to the receptor symbolic reals (a one-cell grid whose centre is
symbolic), zm also as an INTEGER-typed input (numpy's dtype rules are
modelled: zeros_like without dtype inherits the integer kind and truncates on
store); pow / exp / log / gamma / sqrt / atan / atan2 / sin / cos are
uninterpreted with instantiated laws.  The path explorer forks on L's sign
masks, upwind / downwind and U < 0.  z3 decides per path:
  upwind cell: value == res^2 * D_y(x, y) * f^y(x) of the paper (eqs. 9, 18,
  21 with m, n, U, kappa, xi, mu from eqs. 11, 31-36), written independently;
  downwind cell: 0; value >= 0; symmetric under y -> -y; the U < 0 path returns
  zeros; for wd in {0, 90, 180, 270} the value at grid offset (X, Y) equals the
  wind-aligned value at the rotated offset (rotation about the receptor);
  Int-typed zm gives the same value as Real-typed zm.
estimateZ0 without smoothing inverts the diabatic log law; with smoothing, the
body of the loop over direction bins is executed ONCE with a symbolic bin index
(range shadowed; symbolic-mask indexing is lazy) and z3 decides, for ALL
directions in [0, 360), ALL whole-degree rotations and integer half windows
1..45, that the set of observations entering an observation's median is
unchanged by the rotation (the median is an uninterpreted function of the
selection).

Outside: convergence of the cell sum to the regularised incomplete gamma
(a limit); rotation of the footprint by angles that are not multiples of 90
degrees; unstable x wd in {0, 180} (z3 unknown after 900 s; the rotation code is
shared with the stable case); fractional rotations / half windows of the
smoothing."""
import itertools
from fractions import Fraction as F

import numpy as np
import z3

from ..symnp import exact as ex
from ..symnp.loader import Loader

PID = "C19"
K = ex.R(F(2, 5))


def load(patch=None):
    import types

    env = ex.exact_env(extra_modules={"warnings": types.SimpleNamespace(warn=lambda *a, **k: None)})
    env["patch"] = patch or {}
    L = Loader(env)
    return L, L.load("ffm_kormann_meixner")


def paper_value(c, zm, z0, ws, ustar, mol, sv, res, x, y, sign):
    """phi(x, y, zm) * res^2 of Kormann & Meixner (2001), written from the paper"""
    zeta = zm / mol
    if sign > 0:  # stable, eqs. (33)-(35)
        phi_m = ex.R(1) + ex.R(5) * zeta
        phi_c = ex.R(1) + ex.R(5) * zeta
        psi_m = ex.R(5) * zeta
        n = ex.R(1) / (ex.R(1) + ex.R(5) * zeta)
    else:
        w = ex.upow(ex.R(1) - ex.R(16) * zeta, F(1, 4))
        phi_m = ex.upow(ex.R(1) - ex.R(16) * zeta, F(-1, 4))
        phi_c = ex.upow(ex.R(1) - ex.R(16) * zeta, F(-1, 2))
        psi_m = -ex.R(2) * ex.ulog((ex.R(1) + w) * ex.R(F(1, 2))) - ex.ulog((ex.R(1) + w * w) * ex.R(F(1, 2))) + ex.R(2) * ex.uatan(w) - c.PI() * ex.R(F(1, 2))
        n = (ex.R(1) - ex.R(24) * zeta) / (ex.R(1) - ex.R(16) * zeta)
    m = ustar * phi_m / (K * ws)  # eq. (36)
    kappa = K * ustar * zm / (phi_c * ex.upow(zm, n))  # eqs. (11), (32)
    U = ustar * (ex.ulog(zm / z0) + psi_m) / (K * ex.upow(zm, m))  # eqs. (11), (31)
    r = ex.R(2) + m - n
    mu = (ex.R(1) + m) / r
    xi = U * ex.upow(zm, r) / (r * r * kappa)  # eq. (19)
    fy = ex.R(1) / ex.ugamma(mu) * ex.upow(xi, mu) * ex.upow(x, -(ex.R(1) + mu)) * ex.uexp(-xi / x)  # eq. (21)
    ubar = ex.ugamma(mu) / ex.ugamma(ex.R(1) / r) * ex.upow(r * r * kappa / U, m / r) * U * ex.upow(x, m / r)  # eq. (18)
    sigma = sv * x / ubar
    Dy = ex.R(1) / (ex.usqrt(ex.R(2) * c.PI()) * sigma) * ex.uexp(-(y * y) / (ex.R(2) * sigma * sigma))  # eq. (9)
    return res * res * Dy * fy, U


def fp_case(km, sign, int_zm, wd, mirror=False, prior=False):
    """prior: the footprint is preceded, in the same process, by a footprint for ANOTHER receptor on the same
    output grid and wind direction (what a multi-tower or moving-platform series does): the second result must
    still be the closed form about its own receptor"""

    def fn(c):
        z0, ws, ustar, mol, sv, res = (c.real(k) for k in ("z0", "ws", "ustar", "mol", "sv", "res"))
        if int_zm:
            # integer-TYPED input: only numpy's dtype rules depend on the type; the value ranges over the reals (a superset of the integers)
            zm = ex.RI(z3.Real("zm"))
        else:
            zm = c.real("zm")
        c.assume += [zm.v > 0, z0.v > 0, z0.v < zm.v, ws.v > 0, ustar.v > 0, sv.v > 0, res.v > 0, (mol.v > 0) if sign > 0 else (mol.v < 0)]
        # one cell, symbolic centre (cx, cy); receptor at (mx, my)
        cx, cy, mx, my = (c.real(k) for k in ("cx", "cy", "mx", "my"))
        dom = [cx - res * ex.R(F(1, 2)), cx + res * ex.R(F(1, 2)), cy - res * ex.R(F(1, 2)), cy + res * ex.R(F(1, 2))]
        if prior:
            mx0, my0 = c.real("mx_prior"), c.real("my_prior")
            km.estimateFootprint(zm, z0, ws, ustar, mol, sv, dom, res, [mx0, my0], wd=wd)
        gx, gy, ffm = km.estimateFootprint(zm, z0, ws, ustar, mol, sv, dom, res, [mx, my], wd=wd)
        return dict(ffm=ffm, gx=gx, gy=gy, zm=zm, z0=z0, ws=ws, ustar=ustar, mol=mol, sv=sv, res=res, cx=cx, cy=cy, mx=mx, my=my)

    return fn


def rotated_offsets(X, Y, wd):
    """(x along-wind upwind-positive, y cross-wind) of the grid offset (X east, Y north) for a wind FROM wd"""
    if wd is None or wd == 90:
        return X, Y
    if wd == 0:
        return Y, -X
    if wd == 180:
        return -Y, X
    if wd == 270:
        return -X, -Y
    raise ValueError(wd)


def decide(run, c, name, bad, scn, account, found, timeout_ms=120000):
    s = ex.solver_for(c, timeout_ms=timeout_ms)
    s.add(z3.Or(bad))
    if account:
        r = run.solve(s, name, scn, timeout_ms=timeout_ms)
    else:
        r = str(s.check())
    if r == "sat":
        m = s.model()
        vals = {}
        for d in m.decls():
            if "!" not in d.name() and d.name() != "pi":
                try:
                    v = m[d]
                    vals[d.name()] = (float(v.numerator_as_long()) / float(v.denominator_as_long())) if z3.is_rational_value(v) else float(v.as_long())
                except Exception:
                    pass
        found.append((name, scn, vals))
    return r


def footprint_part(run, km, cases, account=True):
    found = []
    for case in cases:
        sign, int_zm, wd = case[:3]
        prior = len(case) > 3 and case[3] == "prior"
        fn = fp_case(km, sign, int_zm, wd, prior=prior)
        npaths = 0
        for info, c in ex.explore(fn, cap=24):
            try:
                if not c.feasible(z3.BoolVal(True), full=False, timeout=20000):
                    continue
            except ex.PathCap:
                pass
            ffm = np.asarray(info["ffm"], dtype=object)
            if ffm.shape != (1, 1):
                found.append(("one_cell_grid", dict(shape=list(ffm.shape)), {}))
                continue
            val = ffm[0, 0]
            X, Y = info["gx"][0, 0] - info["mx"], info["gy"][0, 0] - info["my"]
            x, y = rotated_offsets(X, Y, wd)
            # make sin / cos of the polar angle itself available to the shift laws
            for (ay, ax), th in list(c.apps.get("atan2", [])):
                c.app("sin", th)
                c.app("cos", th)
            want, U = paper_value(c, info["zm"], info["z0"], info["ws"], info["ustar"], info["mol"], info["sv"], info["res"], x, y, sign)
            npaths += 1
            scn = dict(stability="stable" if sign > 0 else "unstable", zm_type="int" if int_zm else "float", wd=wd, path=npaths)
            if prior:
                scn["history"] = "preceded by a footprint for another receptor on the same grid"
            if int_zm:
                # dtype flow: with an integer-typed height no physical quantity may pass through integer storage
                tr = getattr(c, "truncations", 0)
                if account:
                    o = run.ob("integer_typed_height_never_truncated")
                    o["queries"] += 1
                    o["sat" if tr else "unsat"] += 1
                    run.queries["sat" if tr else "unsat"] += 1
                    run.nontrivial.add(("integer_typed_height_never_truncated", repr(scn)))
                if tr:
                    found.append(("integer_typed_height_never_truncated", scn, dict(truncating_stores=tr)))
                    continue
            upwind, Uneg = ex.zt(x) > 0, ex.zt(U) < 0
            bad = [z3.And(upwind, z3.Not(Uneg), ex.neq(val, want)), z3.And(z3.Or(z3.Not(upwind), Uneg), ex.neq(val, 0)), ex.zt(val) < 0]
            if account:
                run.paths["explored"] += 1
                run.sample(dict(scn, uf_applications={k: len(v) for k, v in c.apps.items()}), cap=4)
            r = decide(run, c, "cell_value_equals_published_closed_form", bad, scn, account, found)
            if account and npaths <= 2:
                run.twin(ex.solver_for(c, with_axioms=False), "C19 %s" % scn)
        if account and npaths == 0:
            run.errors.append("no feasible path for case %s" % ((sign, int_zm, wd),))
        if not account and npaths == 0:
            found.append(("no_feasible_path", {}, {}))
    return found


def symmetry_part(run, km, account=True):
    """value(x, y) == value(x, -y) for the wind-aligned grid, and Int == Real zm"""
    found = []
    for sign in (1, -1):
        def fn(c, sign=sign):
            a = fp_case(km, sign, False, None)(c)
            # mirrored cell: same x offset, y offset negated (cy' - my = -(cy - my))
            res, cx, cy, mx, my = a["res"], a["cx"], a["cy"], a["mx"], a["my"]
            cy2 = my + my - cy
            dom = [cx - res * ex.R(F(1, 2)), cx + res * ex.R(F(1, 2)), cy2 - res * ex.R(F(1, 2)), cy2 + res * ex.R(F(1, 2))]
            g = km.estimateFootprint(a["zm"], a["z0"], a["ws"], a["ustar"], a["mol"], a["sv"], dom, res, [mx, my], wd=None)
            return a["ffm"], g[2]

        n = 0
        for (f1, f2), c in ex.explore(fn, cap=24):
            n += 1
            bad = [ex.neq(np.asarray(f1, dtype=object)[0, 0], np.asarray(f2, dtype=object)[0, 0])]
            decide(run, c, "symmetric_about_the_wind_axis", bad, dict(stability="stable" if sign > 0 else "unstable", path=n), account, found)
    return found


def z0_part(run, km, account=True):
    found = []
    for sign in (1, -1):
        def fn(c, sign=sign):
            zm, ws, ustar, mol, wd = (c.real(k) for k in ("zm", "ws", "ustar", "mol", "wd"))
            c.assume += [zm.v > 0, ws.v > 0, ustar.v > 0, (mol.v > 0) if sign > 0 else (mol.v < 0)]
            arr = lambda v: ex.xarr([v])
            z0 = km.estimateZ0(arr(zm), arr(ws), arr(wd), arr(ustar), arr(mol), half_wd_win=0)
            return z0[0], zm, ws, ustar, mol

        n = 0
        for (z0, zm, ws, ustar, mol), c in ex.explore(fn, cap=8):
            n += 1
            psi = km._psiM(ex.xarr([zm]), ex.xarr([mol]))[0]
            z0_raw = zm * ex.uexp(psi - (K * ws / ustar))
            c.assume.append(ex.zt(z0_raw) <= 1000)  # the outlier filter replaces larger values by NaN
            c.assume.append(ex.zt(z0) > 0)
            bad = [ex.neq(ustar / K * (ex.ulog(zm / z0) + psi), ws)]
            try:
                if not c.feasible(z3.BoolVal(True), full=True, timeout=30000):
                    continue
            except ex.PathCap:
                pass
            decide(run, c, "roughness_length_inverts_the_diabatic_log_law", bad, dict(stability="stable" if sign > 0 else "unstable", path=n), account, found)
    return found


def smoothing_sets(km, bins, hw, rot):
    """run the real estimateZ0 with observations inside the given 1-degree bins
    (positions inside the bins symbolic) -> for every observation the frozenset of
    observations entering its median (via the uninterpreted median's registry)"""
    c = ex.new_ctx()
    c.work = None
    k = len(bins)
    wd = []
    for i, b in enumerate(bins):
        b2 = (b + rot) % 360
        t = c.real("t%d" % i)  # position inside the bin
        c.assume += [t.v >= 0, t.v < 1]
        wd.append(ex.R(b2) + t)
    zm = ex.xarr([ex.R(10)] * k)
    ws = ex.xarr([c.real("ws%d" % i) for i in range(k)])
    for i in range(k):
        c.assume.append(ws[i].v > 0)
    ustar = ex.xarr([ex.R(F(3, 10))] * k)
    mol = ex.xarr([ex.R(50)] * k)
    # tag each z0 entry so that the registered medians reveal the selection
    z0med = km.estimateZ0(zm, ws, ex.xarr(wd), ustar, mol, half_wd_win=hw)
    if c.prefix and any(c.prefix):
        pass
    reg = c.__dict__.get("medians", {})
    inv = {str(v): key for key, v in reg.items()}
    out = []
    for i in range(k):
        e = z0med[i]
        out.append(inv.get(str(ex.zt(e)), "unassigned:%s" % (ex.zt(e),)))
    return out, c


def smoothing_part(run, km, account=True, tier="quick"):
    """rotation invariance of the selection entering every median"""
    found = []
    hw_list = (22, 3)
    configs = [(338, 0, 330), (0, 359, 180), (21, 359, 45), (89, 271, 0), (91, 269, 315), (337, 23, 1), (359, 0, 1)]
    if tier == "thorough":
        configs += [(a, b, c_) for a, b, c_ in itertools.product((0, 89, 90, 270, 271, 359), (22, 23, 337, 338), (1, 180, 358))][:40]
    rots = range(1, 360) if tier == "thorough" else list(range(1, 360, 7)) + [20, 22, 23, 90, 180, 270, 337, 338, 359]
    for hw in hw_list:
        for bins in configs:
            ref, c0 = smoothing_sets(km, bins, hw, 0)
            forks0 = len([p for p in c0.prefix])
            for r_ in rots:
                got, c1 = smoothing_sets(km, bins, hw, r_)
                same = got == ref
                name = "median_selection_invariant_under_common_rotation"
                scn = dict(bins=list(bins), half_window=hw, rotation=r_)
                if account:
                    # the comparison itself is concrete (the selections are decided by the solver during
                    # execution: every mask comparison is an entailment query under the bin assumptions)
                    o = run.ob(name)
                    o["queries"] += 1
                    o["sat" if not same else "unsat"] += 1
                    run.queries["sat" if not same else "unsat"] += 1
                    run.nontrivial.add((name, repr((bins, hw, r_))))
                    run.extra["entailment_queries_in_smoothing"] = run.extra.get("entailment_queries_in_smoothing", 0) + c1.feas_queries
                if not same:
                    found.append((name, scn, dict(reference=ref, rotated=got)))
                    if not account:
                        return found
                    break
    return found


def replay(rec):
    """real functions against a scipy oracle written from the paper, and the smoothing rotation"""
    import warnings

    from scipy import special as sp

    from bldfm.ffm_kormann_meixner import estimateFootprint, estimateZ0

    bad = []
    k = 0.4

    def paper(zm, z0, ws, ustar, L, sv, res, x, y):
        zeta = zm / L
        if L > 0:
            phim = phic = 1 + 5 * zeta
            psim = 5 * zeta
            n = 1 / (1 + 5 * zeta)
        else:
            w = (1 - 16 * zeta) ** 0.25
            phim, phic = 1 / w, 1 / w ** 2
            psim = -2 * np.log((1 + w) / 2) - np.log((1 + w * w) / 2) + 2 * np.arctan(w) - np.pi / 2
            n = (1 - 24 * zeta) / (1 - 16 * zeta)
        m = ustar * phim / (k * ws)
        kappa = k * ustar * zm / (phic * zm ** n)
        U = ustar * (np.log(zm / z0) + psim) / (k * zm ** m)
        r = 2 + m - n
        mu = (1 + m) / r
        xi = U * zm ** r / (r * r * kappa)
        out = np.zeros_like(x)
        up = x > 0
        fy = xi ** mu * x[up] ** (-1 - mu) * np.exp(-xi / x[up]) / sp.gamma(mu)
        ubar = sp.gamma(mu) / sp.gamma(1 / r) * (r * r * kappa / U) ** (m / r) * U * x[up] ** (m / r)
        sig = sv * x[up] / ubar
        out[up] = res ** 2 * fy * np.exp(-y[up] ** 2 / (2 * sig ** 2)) / (np.sqrt(2 * np.pi) * sig)
        return out

    m_ = rec.get("model", {})
    with warnings.catch_warnings():
        warnings.simplefilter("ignore")
        for zm in (10, 10.0, np.int64(4), 3.5, int(abs(m_.get("zm_int", 6))) or 6):
            for L in (-40.0, 60.0, -7):
                for wd in (None, 0, 90, 180, 270):
                    gx, gy, f = estimateFootprint(zm, 0.1, 3.0, 0.4, L, 0.8, [-60, 60, -60, 60], 10.0, [5.0, -5.0], wd=wd)
                    X, Y = gx - 5.0, gy + 5.0
                    x, y = rotated_offsets(X, Y, wd)
                    want = paper(float(zm), 0.1, 3.0, 0.4, float(L), 0.8, 10.0, np.asarray(x, float), np.asarray(y, float))
                    err = np.abs(f - want).max() / max(want.max(), 1e-300)
                    if not np.isfinite(err) or err > 1e-9 or (f < 0).any():
                        bad.append(["footprint", str(type(zm).__name__), zm, L, wd, float(err)])
        # call histories: the same footprint preceded by a footprint for another receptor on the same grid
        import importlib

        import bldfm.ffm_kormann_meixner as KM

        for wd in (None, 270.0, 37.5):
            args = (10.0, 0.1, 3.0, 0.4, 60.0, 0.8, [-60, 60, -60, 60], 10.0)
            KM.estimateFootprint(*args, [5.0, -5.0], wd=wd)
            gx, gy, f2 = KM.estimateFootprint(*args, [-20.0, 15.0], wd=wd)
            KM = importlib.reload(KM)
            gx, gy, ref = KM.estimateFootprint(*args, [-20.0, 15.0], wd=wd)
            err = float(np.abs(f2 - ref).max() / max(np.abs(ref).max(), 1e-300))
            if not np.isfinite(err) or err > 1e-12:
                bad.append(["footprint depends on an earlier call (other receptor, same grid)", wd, err])
        rng = np.random.default_rng(0)
        for hw in (22, 3):
            for trial in range(6):
                kobs = 3 if trial < 3 else 40
                wd = rng.uniform(0, 360, kobs)
                if trial == 0:
                    wd = np.array([338.5, 0.5, 330.0])
                if trial == 1:
                    wd = np.array([0.2, 359.7, 21.9])
                ws = rng.uniform(2, 6, kobs)
                z0 = estimateZ0(np.full(kobs, 10.0), ws, wd, np.full(kobs, 0.3), np.full(kobs, 50.0), half_wd_win=hw)
                for r_ in (20, -20, 22, 23, 90, 181, 337):
                    z1 = estimateZ0(np.full(kobs, 10.0), ws, (wd + r_) % 360, np.full(kobs, 0.3), np.full(kobs, 50.0), half_wd_win=hw)
                    if not np.allclose(z0, z1, rtol=1e-12, atol=0, equal_nan=True):
                        bad.append(["z0 smoothing rotation", hw, trial, r_])
        zz = estimateZ0(np.array([10.0, 5.0]), np.array([3.0, 4.0]), np.array([10.0, 200.0]), np.array([0.3, 0.4]), np.array([-50.0, 80.0]), half_wd_win=0)
        for z0v, zm, ws, us, L in zip(zz, (10.0, 5.0), (3.0, 4.0), (0.3, 0.4), (-50.0, 80.0)):
            if L > 0:
                psim = 5 * zm / L
            else:
                w = (1 - 16 * zm / L) ** 0.25
                psim = -2 * np.log((1 + w) / 2) - np.log((1 + w * w) / 2) + 2 * np.arctan(w) - np.pi / 2
            if abs(us / k * (np.log(zm / z0v) + psim) - ws) > 1e-9:
                bad.append(["z0 inversion", zm, ws])
    return dict(discrepancies=bad[:8], confirmed=bool(bad))


CANARIES = [
    ("integer_dtype_inherited", {"ffm_kormann_meixner": [("    phi_c = np.zeros_like(zm, dtype=float)", "    phi_c = np.zeros_like(zm)")]}, "fp_int"),
    ("gamma_not_cancelled", {"ffm_kormann_meixner": [("-Xi / x[sflag] - 0.5 * (gmm * y[sflag] * A * x[sflag] ** (mr - 1)) ** 2", "-Xi / x[sflag] - 0.5 * (y[sflag] * A * x[sflag] ** (mr - 1)) ** 2")]}, "fp"),
    ("downwind_contributes", {"ffm_kormann_meixner": [("    sflag = x > 0  # Only upwind", "    sflag = x > -grid_res  # Only upwind")]}, "fp"),
    ("n_unstable_coefficient", {"ffm_kormann_meixner": [("n[sflag] = (1 - 24 * zm[sflag] / mo_len[sflag])", "n[sflag] = (1 - 16 * zm[sflag] / mo_len[sflag])")]}, "fp"),
    ("rotation_sense", {"ffm_kormann_meixner": [("new_theta = theta + np.deg2rad(wd) - np.pi * 0.5", "new_theta = theta - np.deg2rad(wd) + np.pi * 0.5")]}, "fp_wd"),
    ("z0_sign", {"ffm_kormann_meixner": [("z0 = zm * np.exp(psi_m - (k * ws / ustar))", "z0 = zm * np.exp(-psi_m - (k * ws / ustar))")]}, "z0"),
    ("window_threshold", {"ffm_kormann_meixner": [("        if kk < 90:", "        if kk < half_wd_win:"), ("        elif kk > 270:", "        elif kk > 360 - half_wd_win:")]}, "smooth"),
    ("wrap_forgotten_on_the_high_side", {"ffm_kormann_meixner": [("            wd_wrapped[wd < 90] = wd[wd < 90] + 360", "            wd_wrapped[wd < 90] = wd[wd < 90] + 0")]}, "smooth"),
]


def worker(args):
    from ..core import Run

    kind, payload, patch, account, tier = args
    run = Run(PID)
    run.tier = tier
    run.cex = []
    try:
        L, km = load(patch)
        if kind == "fp":
            f = footprint_part(run, km, [payload], account=account)
        elif kind == "sym":
            f = symmetry_part(run, km, account=account)
        elif kind == "z0":
            f = z0_part(run, km, account=account)
        else:
            f = smoothing_symbolic(run, patch=patch, account=account, hws=payload[0], wraps=payload[1])
        for name, scn, vals in f:
            run.cex.append(dict(obligation=name, scenario=scn, model=vals))
    except KeyError:
        run.cex.append(dict(obligation="n/a"))
    except Exception:
        import traceback

        if account:
            run.errors.append("exception: %s" % traceback.format_exc()[-1500:])
        else:
            run.cex.append(dict(obligation="raised"))
    return run.export()


def cases(tier):
    out = []
    for sign in (1, -1):
        for int_zm in (False, True):
            for wd in (None, 0, 90, 180, 270):
                if int_zm and wd is not None:
                    continue  # the dtype rule does not interact with the rotation
                if sign < 0 and wd in (0, 180):
                    continue  # z3 answers unknown (900 s) on unstable x {0, 180}: the rotation code is shared with the stable case, the value formula with wd None / 90 / 270
                out.append((sign, int_zm, wd))
    # call histories: state kept between calls (module-level memo, mutated default, cached geometry)
    out += [(1, False, None, "prior"), (1, False, 270, "prior")]
    return out


def main(run):
    run.explanation = (
        "Exact/UF symbolic execution of the reference model on a one-cell grid with a SYMBOLIC cell position relative to the receptor: z3 decides "
        "per path (stability masks, upwind/downwind, U<0) that the cell value is the paper's closed form (written independently), 0 downwind / for U<0, "
        ">= 0, symmetric about the wind axis, rotated correctly for wd in {0,90,180,270}, identical for integer- and float-typed heights; that "
        "estimateZ0 inverts the diabatic log law; and that the selection entering every directional median is invariant under whole-degree rotations "
        "(observations placed in enumerated 1-degree bins, position inside the bin symbolic: every mask comparison is an entailment query)."
    )
    run.assumptions = [
        "zm > z0 > 0, ws, ustar, sigma_v, res > 0; L split by sign",
        "pow/exp/log/gamma/sqrt/atan/atan2/sin/cos uninterpreted with the listed laws; the median an uninterpreted function of the selected entries",
        "numpy dtype rule modelled: zeros_like(a) without dtype inherits an integer kind and truncates values stored into it",
        "OUTSIDE: the Riemann-sum limit to the incomplete gamma; rotations that are not multiples of 90 degrees; more than 3 observations in the smoothing",
    ]
    L, km = load()
    L.run = run
    L.record("ffm_kormann_meixner", "estimateFootprint", "estimateZ0", "_phiM", "_phiC", "_psiM", "_mParam", "_nParam")
    run.transforms = L.transforms()
    jobs = [("fp", cs, None, True, run.tier) for cs in cases(run.tier)] + [("sym", None, None, True, run.tier), ("z0", None, None, True, run.tier)] + \
        [("smooth", ([h], [w]), None, True, run.tier) for h in ([3, 22] if run.tier == "quick" else list(range(1, 46)))
         for w in ((False, False), (False, True), (True, False), (True, True))]
    cex = run.pmap(worker, jobs)
    seen = set()
    for c_ in cex:
        if c_["obligation"] in seen:
            continue
        seen.add(c_["obligation"])
        res = replay(c_)
        run.report(dict(c_, property=PID, replay=res, cmd="./check C19 --replay <this file>"), res["confirmed"])
    run.bounds = dict(cells="one cell with symbolic position (covers every cell of every grid)", wd=[None, 0, 90, 180, 270],
                      smoothing=dict(directions="all reals in [0,360)", rotations="all integers 1..359", half_windows=[3, 22] if run.tier == "quick" else "1..45",
                                     observations="2 (the selection of an observation depends only on its own direction and the bin)"))
    cj = []
    for name, patch, kind in CANARIES:
        payload = {"fp": (-1, False, None), "fp_int": (-1, True, None), "fp_wd": (1, False, 0), "smooth": ([22], None)}.get(kind)
        cj.append((name, ("fp" if kind.startswith("fp") else kind, payload, patch, False, "quick")))
    import concurrent.futures as cf
    import multiprocessing as mp

    with cf.ProcessPoolExecutor(max_workers=len(cj), mp_context=mp.get_context("spawn")) as pool:
        for (name, _), d in zip(cj, pool.map(worker, [a for _, a in cj])):
            obs = [c_["obligation"] for c_ in d["cex"]]
            if obs == ["n/a"]:
                run.note("canary %s not applicable" % name)
                continue
            run.canaries["total"] += 1
            if obs:
                run.canaries["caught"] += 1
            else:
                run.canaries["missed"].append(name)
                run.errors.append("canary %s was not noticed by the harness" % name)


# ---------------------------------------------------------------------------
# directional smoothing of estimateZ0: rotation invariance of the median's selection
#
# The loop `for kk in range(0, 360)` of the real estimateZ0 is executed ONCE with a symbolic
# bin index kk (the builtin range is shadowed for this module), wind directions and the half
# window symbolic; indexing with symbolic masks is lazy (no forking).  This yields, per regime
# (kk < 90, kk > 270, else), the formulas
#   Assign(i; kk, wd)  : observation i receives its estimate in iteration kk
#   Sel(j; kk, wd, hw) : observation j enters the median of iteration kk
# z3 then decides, for ALL directions in [0, 360), all whole-degree rotations r and all
# integer half windows in the stated range, that Sel(j; kk_i, wd) <=> Sel(j; kk_i', wd + r).
# Two observations suffice: Sel(j) depends only on observation j's own direction and kk.


def load_symloop(patch=None):
    import types

    env = ex.exact_env(extra_modules={"warnings": types.SimpleNamespace(warn=lambda *a, **k: None)})
    env["patch"] = patch or {}
    holder = {}

    def sym_range(*a):
        if tuple(a) == (0, 360):
            return [holder["kk"]]
        return range(*a)

    env["builtins"] = dict(env["builtins"], range=sym_range)
    L = Loader(env)
    return L, L.load("ffm_kormann_meixner"), holder


def smoothing_symbolic(run, patch=None, account=True, hw_lo=1, hw_hi=45, hws=None, wraps=None):
    L, km, holder = load_symloop(patch)
    if account:
        run.encode("bldfm.ffm_kormann_meixner", "estimateZ0 (loop body executed once with a symbolic bin index)", L.function_source("ffm_kormann_meixner", "estimateZ0"))
    regimes = []

    def fn(c):
        c.lazy_masks = True
        kk = z3.Int("kk")
        hw = z3.Int("hw")
        holder["kk"] = ex.R(z3.ToReal(kk))
        c.assume += [kk >= 0, kk <= 359, hw >= hw_lo, hw <= hw_hi]
        wd = [c.real("wd0"), c.real("wd1")]
        for w in wd:
            c.assume += [w.v >= 0, w.v < 360]
        ws = ex.xarr([c.real("ws0"), c.real("ws1")])
        zm = ex.xarr([ex.R(10), ex.R(10)])
        ustar = ex.xarr([ex.R(F(3, 10))] * 2)
        mol = ex.xarr([ex.R(50)] * 2)
        km.estimateZ0(zm, ws, ex.xarr(wd), ustar, mol, half_wd_win=ex.R(z3.ToReal(hw)))
        return dict(kk=kk, hw=hw, wd=[w.v for w in wd])

    for info, c in ex.explore(fn, cap=16):
        sels = c.__dict__.get("median_selections", [])
        stores = c.__dict__.get("masked_stores", [])
        if not sels or not stores:
            continue
        sel_mask = [ex._bt(b) for b in sels[-1][0]]
        tok = sels[-1][2]
        assign = None
        for mask, val in stores:
            if isinstance(val, ex.R) and val.v is tok.v or (isinstance(val, ex.R) and z3.is_expr(val.v) and val.v.eq(tok.v)):
                assign = [ex._bt(b) for b in mask]
        if assign is None:
            continue
        regimes.append(dict(pc=z3.And(c.pc) if c.pc else z3.BoolVal(True), sel=sel_mask, assign=assign, info=info))
    if not regimes:
        if account:
            run.errors.append("smoothing: no regime of the loop body could be extracted")
        return [("no_regime", {}, {})]
    base = regimes[0]["info"]
    kk0, hw0, wd0 = base["kk"], base["hw"], base["wd"]

    def inst(formula, kk, wd):
        return z3.substitute(formula, (kk0, kk), (wd0[0], wd[0]), (wd0[1], wd[1]))

    def Sel(j, kk, wd):
        return z3.Or([z3.And(inst(r_["pc"], kk, wd), inst(r_["sel"][j], kk, wd)) for r_ in regimes])

    def Assign(i, kk, wd):
        return z3.Or([z3.And(inst(r_["pc"], kk, wd), inst(r_["assign"][i], kk, wd)) for r_ in regimes])

    ka, kb, r_ = z3.Int("kk_a"), z3.Int("kk_b"), z3.Int("rot")
    wa = [z3.Real("wa0"), z3.Real("wa1")]
    found = []
    scn = dict(half_window="integer %d..%d" % (hw_lo, hw_hi), rotation="integer 1..359", directions="all reals in [0, 360)", regimes=len(regimes))
    twin_done = False
    # case split (keeps every sub-query linear): half window value x wrap-around of each rotated direction
    if hws is None:
        hws = list(range(hw_lo, hw_hi + 1)) if run.tier == "thorough" else [1, 3, 22, 45]
    for hwv in hws:
        for wrap in (wraps or ((False, False), (False, True), (True, False), (True, True))):
            wb = [w + z3.ToReal(r_) - (360 if wr else 0) for w, wr in zip(wa, wrap)]
            s = z3.Solver()
            s.add(hw0 == hwv, r_ >= 1, r_ <= 359, ka >= 0, ka <= 359, kb >= 0, kb <= 359)
            for w, w2, wr in zip(wa, wb, wrap):
                s.add(w >= 0, w < 360, w2 >= 0, w2 < 360)
            s.add(Assign(0, ka, wa), Assign(0, kb, wb))
            # redundant facts that follow from the assumptions and help the arithmetic core: every
            # direction is an integer bin plus a fraction that a whole-degree rotation leaves unchanged
            ba = [z3.Int("ba0"), z3.Int("ba1")]
            ta = [z3.Real("ta0"), z3.Real("ta1")]
            for w, b_, t_ in zip(wa, ba, ta):
                s.add(w == z3.ToReal(b_) + t_, t_ >= 0, t_ < 1, b_ >= 0, b_ <= 359)
            if account and not twin_done and tuple(wrap) in ((False, True), (False, False)):
                run.twin(s, "C19 smoothing: an observation is assigned before and after the rotation")
                run.paths["explored"] += len(regimes)
                twin_done = True
            # further split over the regime of the loop body before / after the rotation
            for pa, pb in itertools.product(range(len(regimes)), repeat=2):
                ra, rb = regimes[pa], regimes[pb]
                s.push()
                s.add(inst(ra["pc"], ka, wa), inst(rb["pc"], kb, wb))
                s.add(z3.Or([z3.Xor(inst(ra["sel"][j], ka, wa), inst(rb["sel"][j], kb, wb)) for j in (0, 1)]))
                sc2 = dict(scn, half_window=hwv, wraps=list(wrap), regimes_before_after=[pa, pb])
                s.set("timeout", 6000)
                res = str(s.check())
                m = s.model() if res == "sat" else None
                if res == "unknown":
                    # second strategy: the mixed integer/real linear core
                    s2 = z3.SolverFor("QF_LIRA")
                    s2.add(s.assertions())
                    if account:
                        res = run.solve(s2, "median_selection_invariant_under_common_rotation", sc2, timeout_ms=240000)
                    else:
                        s2.set("timeout", 120000)
                        res = str(s2.check())
                    m = s2.model() if res == "sat" else None
                elif account:
                    run.queries[res] += 1
                    o = run.ob("median_selection_invariant_under_common_rotation")
                    o["queries"] += 1
                    o[res] += 1
                    run.nontrivial.add(("median_selection_invariant_under_common_rotation", repr(sc2)))
                s.pop()
                if res == "sat":
                    vals = {str(d): str(m[d]) for d in m.decls()}
                    found.append(("median_selection_invariant_under_common_rotation", sc2, vals))
                    break
            if found:
                break
        if found:
            if not account:
                return found
            break
    # the assigned bin is the observation's own 1-degree bin (exactly one iteration assigns it)
    s2 = z3.Solver()
    s2.add(hw0 >= hw_lo, hw0 <= hw_hi, ka >= 0, ka <= 359)
    for w in wa:
        s2.add(w >= 0, w < 360)
    s2.add(z3.Xor(Assign(0, ka, wa), z3.And(wa[0] >= z3.ToReal(ka), wa[0] < z3.ToReal(ka) + 1)))
    if account:
        res2 = run.solve(s2, "estimate_assigned_in_the_observations_own_bin", scn)
    else:
        s2.set("timeout", 60000)
        res2 = str(s2.check())
    if res2 == "sat":
        found.append(("estimate_assigned_in_the_observations_own_bin", scn, {}))
    return found
