"""C12 - a solve is a pure function of its arguments (Python layer only).

Kind L + D.  The repository's solver.py, fft_manager.py, utils.parallelize and
config.py are loaded ONCE per history, so module state (config.NUM_THREADS, the
FFT-manager singleton, the compiled-kernel dictionary, anything a change adds)
persists between calls.  For every history of length <= 3 over an alphabet of
solves (two shapes, two mode sets, both precisions, footprint / dispersion /
analytic) interleaved with NUM_THREADS in {1,2,4,8} and reset_fft_manager(),
the last solve is compared with the same solve in a freshly loaded package:
  - z3: the results are the same linear forms in the (shared) symbolic source;
  - the per-cell precision taint (has the value passed through single-precision
    storage or a single-precision transform) is identical - this is what the
    'precision only selects the storage type' mechanism means in a model over
    the reals;
  - shapes and coordinates identical.
single vs double: same real-arithmetic forms; double results carry no taint.

Outside (most of the property): bit-identity, 1e-12 agreement across thread
counts and processes, FFTW planning/wisdom, numba's parallel back-end, the
1e-5 magnitude of single-precision rounding - FFI / OS threads / IEEE rounding
are not visible to a symbolic executor."""
import itertools

import numpy as np

from ..symnp import affine as af
from ..symnp import kindl

PID = "C12"

SOLVES = {
    "A": dict(ny=3, nx=4, dx=10.0, dy=12.0, pid="P2", n=3, halo=13.1, modes=(4, 2), levels=[1, 3], precision="double", fp=False),
    "B": dict(ny=3, nx=4, dx=10.0, dy=12.0, pid="P2", n=3, halo=13.1, modes=(4, 2), levels=[1, 3], precision="single", fp=False),
    "C": dict(ny=2, nx=3, dx=12.0, dy=9.0, pid="P3", n=2, halo=0.0, modes=(6, 4), levels=[2], precision="double", fp=True),
    "D": dict(ny=3, nx=4, dx=10.0, dy=12.0, pid="P1", n=3, halo=13.1, modes=(4, 2), levels=[1, 3], precision="double", fp=False, analytic=True),
    "E": dict(ny=3, nx=4, dx=10.0, dy=12.0, pid="P2", n=3, halo=13.1, modes=(4, 2), levels=[1, 3], precision="single", fp=True),
    "F": dict(ny=3, nx=4, dx=10.0, dy=12.0, pid="P2", n=3, halo=13.1, modes=(4, 2), levels=[1, 3], precision="double", fp=True),
    # same domain (40 x 36), halo, modes, profiles as A on another grid: the padded extents differ (56 x 54 against 60 x 60)
    "G": dict(ny=4, nx=5, dx=8.0, dy=9.0, pid="P2", n=3, halo=13.1, modes=(4, 2), levels=[1, 3], precision="double", fp=False),
}
# "M": the caller overwrites the contents of the argument arrays IN PLACE (same objects, new values:
# a second symbolic source, perturbed profiles) - what a time series does with a reused buffer
CONTROLS = ["T1", "T2", "T4", "T8", "R", "M"]


def histories(tier):
    ops = list(SOLVES) + CONTROLS
    maxpre = 2 if tier == "quick" else 3
    out = []
    for last in SOLVES:
        for k in range(0, maxpre + 1):
            for pre in itertools.product(ops, repeat=k):
                if k == 3 and not any(p in SOLVES for p in pre):
                    continue
                if k == 3 and tier == "thorough" and len(set(pre)) < 2 and pre[0] in CONTROLS:
                    continue
                out.append(list(pre) + [last])
    return out


class Ctx:
    def __init__(self, patch=None):
        self.sp = af.Space()
        self.q = {}
        self.qv = {}
        for shape in {(s["ny"], s["nx"]) for s in SOLVES.values()}:
            self.qv[shape] = [af.sym_field(self.sp, shape, "q%dx%d" % shape), af.sym_field(self.sp, shape, "r%dx%d" % shape)]
        self.bg = self.sp.var("bg")
        self.patch = patch
        self.fresh_cache = {}
        self.begin()

    def zprof_of(self, sc, version):
        z, prof = kindl.profiles(sc["pid"], sc["n"], seed=0)
        z, prof = np.array(z, float), tuple(np.array(a, float) for a in prof)
        if version:
            u, v, Kx, Ky, Kz = prof
            prof = (u * 0.9 + 0.1, v * 1.1 - 0.05, Kx * 1.07, Ky * 0.95, Kz * 1.03)
        return z, prof

    def begin(self):
        """start of a history: the caller's live argument objects, version-0 contents"""
        self.version = 0
        self.q = {shape: self.qv[shape][0].copy().view(af.SymArr) for shape in self.qv}
        self.zp = {}
        for op, sc in SOLVES.items():
            self.zp.setdefault((sc["pid"], sc["n"]), self.zprof_of(sc, 0))

    def mutate(self):
        self.version ^= 1
        for shape in self.q:
            self.q[shape][...] = self.qv[shape][self.version]
        for (pid, n), (z, prof) in self.zp.items():
            z2, prof2 = self.zprof_of(dict(pid=pid, n=n), self.version)
            for a, b in zip(prof, prof2):
                a[...] = b

    def new_sym(self):
        return kindl.Sym(record=False, space=self.sp, patch=self.patch)

    def do(self, sym, op, fresh_version=None):
        if op in SOLVES:
            sc = SOLVES[op]
            if fresh_version is None:
                q = self.q[(sc["ny"], sc["nx"])]
                zp = self.zp[(sc["pid"], sc["n"])]
            else:  # brand-new objects with the same contents
                q = self.qv[(sc["ny"], sc["nx"])][fresh_version].copy().view(af.SymArr)
                zp = self.zprof_of(sc, fresh_version)
            kw = dict(analytic=sc.get("analytic", False), zprof=zp)
            if sc["fp"]:
                kw.update(footprint=True, meas_pt=(sc["dx"], sc["dy"]))
            else:
                kw.update(srf_bg_conc=self.bg)
            return kindl.sym_solve(sym, sc, q, **kw)
        if op == "R":
            sym.fft_manager.reset_fft_manager()
        elif op == "M":
            self.mutate()
        else:
            sym.config.NUM_THREADS = int(op[1:])
        return None

    def fresh(self, op, threads, version=0):
        key = (op, threads, version)
        if key not in self.fresh_cache:
            sym = self.new_sym()
            sym.config.NUM_THREADS = threads
            self.fresh_cache[key] = self.do(sym, op, fresh_version=version)
        return self.fresh_cache[key]


def compare(run, ctx, res, ref, ob, scn):
    """-> None if equal, else a description"""
    (g, c, f), (g0, c0, f0) = res, ref
    if np.shape(c) != np.shape(c0) or np.shape(f) != np.shape(f0):
        return "shape %s vs %s" % (np.shape(f), np.shape(f0))
    for a, b in zip(g, g0):
        if np.shape(a) != np.shape(b) or not np.array_equal(np.asarray(a, float), np.asarray(b, float)):
            return "grid differs"
    for nm, a, b in (("conc", c, c0), ("flux", f, f0)):
        vals = kindl.forms_equal(run, ctx.sp, a, b, ob + "_" + nm, scn)
        if vals is not None:
            return "%s forms differ" % nm
        ta, tb = af.taints(a), af.taints(b)
        run.queries["unsat" if np.array_equal(ta, tb) else "sat"] += 1
        o = run.ob(ob + "_precision_taint")
        o["queries"] += 1
        o["unsat" if np.array_equal(ta, tb) else "sat"] += 1
        if not np.array_equal(ta, tb):
            return "%s precision taint differs (history %d cells through single precision, fresh %d)" % (nm, int(ta.sum()), int(tb.sum()))
    return None


def run_histories(run, ctx, hs, cexlist=None):
    for h in hs:
        sym = ctx.new_sym()
        ctx.begin()
        threads = 1
        last = None
        try:
            for op in h:
                last = ctx.do(sym, op)
                if op.startswith("T"):
                    threads = int(op[1:])
            ref = ctx.fresh(h[-1], 1, ctx.version)  # thread settings must not matter either
        except af.NonAffine:
            raise
        except Exception as e:
            d = dict(scenario=dict(history=h), obligation="history_independent", why="exception %s: %s" % (type(e).__name__, e))
            if cexlist is not None:
                cexlist.append(d)
            continue
        scn = dict(history=h, threads=threads)
        why = compare(run, ctx, last, ref, "history_independent", scn)
        if why and cexlist is not None:
            cexlist.append(dict(scenario=scn, obligation="history_independent", why=why))


def worker(hs):
    import traceback

    from ..core import Run

    run = Run(PID)
    run.cex = []
    try:
        ctx = Ctx()
        run.scenarios += len(hs)
        run_histories(run, ctx, hs, run.cex)
        run.sample(dict(history=hs[0], compared_with="same solve in a freshly loaded package"), cap=3)
        kindl.twin_for(run, ctx.sp, "C12 chunk")
    except Exception:
        run.errors.append("exception in chunk: %s" % traceback.format_exc()[-1500:])
    return run.export()


def replay(rec):
    """History on the real package in THIS process vs a fresh subprocess."""
    import json
    import subprocess
    import sys

    h = rec["scenario"]["history"]
    code = r'''
import sys, json, logging
logging.disable(logging.CRITICAL)
import numpy as np
sys.path.insert(0, %r)
from vf.props import C12
from vf.symnp import kindl
real = kindl.real_pkg()
import bldfm.fft_manager as FM
h = json.loads(sys.argv[1])
rng = np.random.default_rng(9)
fields = {}
zps = {}
ctx = C12.Ctx.__new__(C12.Ctx)
state = dict(version=0)
def content(key, version):
    return np.random.default_rng(sum(key) + 100 * version).standard_normal(key)
def do(op):
    if op in C12.SOLVES:
        sc = C12.SOLVES[op]
        key = (sc["ny"], sc["nx"])
        if key not in fields:
            fields[key] = content(key, state["version"])
        pk = (sc["pid"], sc["n"])
        if pk not in zps:
            zps[pk] = ctx.zprof_of(sc, state["version"])
        kw = dict(analytic=sc.get("analytic", False), zprof=zps[pk])
        if sc["fp"]:
            kw.update(footprint=True, meas_pt=(sc["dx"], sc["dy"]))
        else:
            kw.update(srf_bg_conc=0.4)
        return kindl.real_solve(sc, fields[key], **kw)
    if op == "R":
        FM.reset_fft_manager()
    elif op == "M":
        state["version"] ^= 1
        for key in fields:
            fields[key][...] = content(key, state["version"])
        for (pid, n), (z, prof) in zps.items():
            for a, b in zip(prof, ctx.zprof_of(dict(pid=pid, n=n), state["version"])[1]):
                a[...] = b
    else:
        real.config.NUM_THREADS = int(op[1:])
last = None
for op in h:
    last = do(op)
g, c, f = last
print(json.dumps(dict(c=np.asarray(c, float).tolist(), f=np.asarray(f, float).tolist(), cd=str(np.asarray(c).dtype), fd=str(np.asarray(f).dtype))))
''' % (kindl.os.path.dirname(kindl.os.path.dirname(kindl.os.path.dirname(kindl.os.path.abspath(__file__)))),)
    threads = rec["scenario"].get("threads", 1)

    def run_h(hist):
        p = subprocess.run([sys.executable, "-c", code, json.dumps(hist)], capture_output=True, text=True, timeout=600)
        line = [l for l in p.stdout.splitlines() if l.startswith("{")]
        if not line:
            return None, p.stderr[-500:]
        return json.loads(line[-1]), None

    a, ea = run_h(h)
    # the reference process starts from the same CONTENTS (an "M" before any solve only selects the contents)
    b, eb = run_h((["M"] if sum(1 for o in h if o == "M") % 2 else []) + [h[-1]])
    out = dict(history=h)
    if a is None or b is None:
        out.update(error_history=ea, error_fresh=eb, confirmed=bool((a is None) != (b is None)))
        return out
    prec = SOLVES[h[-1]]["precision"]
    tol = 1e-12 if prec == "double" else 1e-6
    worst = 0.0
    for k in ("c", "f"):
        x, y = np.array(a[k]), np.array(b[k])
        if x.shape != y.shape:
            worst = float("inf")
        else:
            worst = max(worst, float(np.abs(x - y).max() / max(np.abs(y).max(), 1e-300)))
    dt = (a["cd"], a["fd"]) != (b["cd"], b["fd"])
    out.update(max_rel_discrepancy=worst, tolerance=tol, dtype_history=[a["cd"], a["fd"]], dtype_fresh=[b["cd"], b["fd"]],
               confirmed=bool(worst > tol or dt))
    return out


CANARIES = [
    ("workspace_reused_without_precision_key", {"solver": [
        ('logger = get_logger(__name__.split("bldfm.")[-1])', 'logger = get_logger(__name__.split("bldfm.")[-1])\n_workspace = {}'),
        ("        tfftp = np.zeros((nlvls, nly, nlx), dtype=np.complex128)\n        tfftq = np.zeros((nlvls, nly, nlx), dtype=np.complex128)\n",
         "        if (nlvls, nly, nlx) not in _workspace:\n            _workspace[(nlvls, nly, nlx)] = np.zeros((2, nlvls, nly, nlx), dtype=np.complex128)\n        tfftp, tfftq = _workspace[(nlvls, nly, nlx)]\n"),
        ("        tfftp = np.zeros((nlvls, nly, nlx), dtype=np.complex64)\n        tfftq = np.zeros((nlvls, nly, nlx), dtype=np.complex64)\n",
         "        if (nlvls, nly, nlx) not in _workspace:\n            _workspace[(nlvls, nly, nlx)] = np.zeros((2, nlvls, nly, nlx), dtype=np.complex64)\n        tfftp, tfftq = _workspace[(nlvls, nly, nlx)]\n"),
    ]}),
    ("threads_change_the_scheme", {"solver": [("        if config.NUM_THREADS > 1:\n", "        if config.NUM_THREADS > 1:\n            tfftq0 = tfftq0 * (1.0 + 1e-6)\n")]}),
    ("kernel_cached_with_first_levels", {"utils": [("        return _compiled[use_parallel](*args, **kwargs)", "        if 'lv' not in _compiled:\n            _compiled['lv'] = args[3]\n        return _compiled[use_parallel](args[0], args[1], args[2], _compiled['lv'], *args[4:], **kwargs)")]}),
    ("fft_manager_state_leaks_norm", {"fft_manager": [("        return pyfftw_fft.ifft2(input_data, norm=norm)", "        r = pyfftw_fft.ifft2(input_data, norm=norm)\n        self.calls = getattr(self, 'calls', 0) + 1\n        return r * (1.0 + 1e-7 * (self.calls > 2))")]}),
]


def canary_job(args):
    name, patch = args
    from ..core import Run

    run = Run(PID)
    try:
        ctx = Ctx(patch=patch)
    except KeyError:
        return name, False, False
    cex = []
    hs = [["B", "A"], ["A", "B"], ["T4", "A"], ["C", "A"], ["A", "A"], ["A", "C", "A"], ["D", "T2", "F"], ["A", "M", "A"], ["F", "M", "F"], ["A", "G"], ["G", "A"]]
    try:
        ctx.new_sym()
    except KeyError:
        return name, False, False
    try:
        run_histories(run, ctx, hs, cex)
    except Exception:
        return name, True, True
    return name, True, bool(cex)


def main(run):
    run.level = "other"
    run.explanation = (
        "Symbolic execution with module state persisting across calls: for every history (<= 2 (quick) / 3 (thorough) "
        "operations before the last solve) over 6 solves x thread settings {1,2,4,8} x FFT-manager reset, z3 decides "
        "that the last solve returns the same linear forms in the symbolic source as the same solve in a freshly "
        "loaded package, with identical per-cell precision taint, shapes and coordinates. Claimed for the Python "
        "layer only."
    )
    run.assumptions = [
        "pyfftw = mathematical DFT independent of threads / plan cache / wisdom; numba preserves Python semantics for both parallel flags",
        "precision taint: a value stored into a complex64 array or transformed from complex64 data is 'single'; compared cell by cell",
        "OUTSIDE the claim: bit-identity, 1e-12 agreement across thread counts and processes, FFTW planning and wisdom, numba's parallel back-end, the 1e-5 magnitude of single-precision rounding",
    ]
    kindl.validate_encoding(run)
    hs = histories(run.tier)
    run.bounds = dict(histories=len(hs), max_prefix=2 if run.tier == "quick" else 3, alphabet=sorted(SOLVES) + CONTROLS,
                      solves={k: {kk: vv for kk, vv in v.items()} for k, v in SOLVES.items()})
    # record the functions
    kindl.Sym(run)  # records the encoded functions / transforms / stubs
    n = 24
    chunks = [hs[i::n] for i in range(n)]
    cex = run.pmap(worker, [c for c in chunks if c])
    kindl.handle_cex(run, PID, cex, replay, cap=4)
    # single vs double: same forms; double carries no taint, single does
    ctx = Ctx()
    a, b = ctx.fresh("A", 1), ctx.fresh("B", 1)
    for nm, k in (("conc", 1), ("flux", 2)):
        vals = kindl.forms_equal(run, ctx.sp, a[k], b[k], "single_equals_double_over_reals_" + nm, dict(solves=["A", "B"]))
        if vals is not None:
            run.errors.append("single and double precision differ as real-arithmetic forms (%s)" % nm)
        if af.taints(a[k]).any() or not af.taints(b[k]).all():
            run.errors.append("precision taint model: double tainted or single untainted (%s)" % nm)
    import concurrent.futures as cf
    import multiprocessing as mp

    with cf.ProcessPoolExecutor(max_workers=4, mp_context=mp.get_context("spawn")) as pool:
        for name, applicable, caught in pool.map(canary_job, CANARIES):
            if not applicable:
                run.note("canary %s not applicable to the current source" % name)
                continue
            run.canaries["total"] += 1
            if caught:
                run.canaries["caught"] += 1
            else:
                run.canaries["missed"].append(name)
                run.errors.append("canary %s was not noticed by the harness" % name)
