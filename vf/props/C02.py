"""C02 - footprint weights reproduce the flux and concentration at the tower.

Kind L.  The real steady_state_transport_solver + ivp_solver + fft_manager +
utils.point_measurement are executed on affine forms: every entry of the
surface-flux field and the background concentration are solver variables.
Per scenario: one forward (dispersion) run with meas_pt=(0,0) and one footprint
run per on-grid measurement point; the solver decides whether

    point_measurement(q0, flx_fp[k])  == flx_fwd[k][j, i]
    point_measurement(q0, conc_fp[k]) == conc_fwd[k][j, i] - c_bg

hold as linear forms for ALL fields q0 in [-1,1]^(ny*nx) (hence all fields, by
homogeneity) and all backgrounds.  A sat answer is a separating field; it is
replayed on the real package before anything is reported.
"""
import itertools

import numpy as np

from ..core import HarnessError
from ..symnp import affine as af
from ..symnp import kindl

PID = "C02"
REPLAY_TOL = {"double": 1e-7, "single": 5e-4}


def scenarios(tier, seed):
    return kindl.base_scenarios(tier, seed)


def meas_points(ny, nx):
    if ny * nx <= 16:
        return [(i, j) for j in range(ny) for i in range(nx)]
    pts = {(0, 0), (nx - 1, 0), (0, ny - 1), (nx - 1, ny - 1), (nx // 2, ny // 2), (1, ny - 2)}
    return sorted(pts)


def _solve_pair(sym, sc, i, j, q, bg, z, prof):
    dom = (sc["nx"] * sc["dx"], sc["ny"] * sc["dy"])
    kw = dict(modes=sc["modes"], halo=sc["halo"], precision=sc["precision"])
    g, cf, ff = sym.S(q, z, prof, dom, sc["levels"], meas_pt=(i * sc["dx"], j * sc["dy"]), footprint=True, **kw)
    return cf, ff


def worker(sc):
    from ..core import Run

    run = Run(PID)
    run.cex = []
    try:
        sym = kindl.Sym(run)
        sp = sym.sp
        ny, nx = sc["ny"], sc["nx"]
        z, prof = kindl.profiles(sc["pid"], sc["n"], seed=sc["seed"])
        gr = sc["growth"]
        q = sym.field((ny, nx))
        bg = sym.var("bg")
        dom = (nx * sc["dx"], ny * sc["dy"])
        kw = dict(modes=sc["modes"], halo=sc["halo"], precision=sc["precision"])
        g, cfw, ffw = sym.S(q, z, prof, dom, sc["levels"], meas_pt=(0.0, 0.0), srf_bg_conc=bg, footprint=False, **kw)
        nl = len(sc["levels"])
        cfw = np.reshape(cfw, (nl, ny, nx))
        ffw = np.reshape(ffw, (nl, ny, nx))
        pm = sym.utils.point_measurement
        run.scenarios += 1
        for (i, j) in meas_points(ny, nx):
            cfp, ffp = _solve_pair(sym, sc, i, j, q, bg, z, prof)
            cfp = np.reshape(cfp, (nl, ny, nx))
            ffp = np.reshape(ffp, (nl, ny, nx))
            lhs_f = np.array([pm(q, ffp[k]) for k in range(nl)], dtype=object)
            rhs_f = np.array([ffw[k][j, i] for k in range(nl)], dtype=object)
            lhs_c = np.array([pm(q, cfp[k]) for k in range(nl)], dtype=object)
            rhs_c = np.array([cfw[k][j, i] - bg for k in range(nl)], dtype=object)
            scn = dict(sc, meas=(i, j), growth=round(gr, 2))
            for name, lhs, rhs in (("flux_reciprocity", lhs_f, rhs_f), ("conc_reciprocity", lhs_c, rhs_c)):
                vals = kindl.forms_equal(run, sp, lhs, rhs, name, scn)
                if vals is not None:
                    run.cex.append(dict(scenario=scn, obligation=name, q=kindl.field_from_model(vals, (ny, nx)).tolist(),
                                        bg=vals.get("bg", 0.0)))
            if len(run.samples) < 2:
                run.sample(dict(scenario=scn, obligations=["flux_reciprocity", "conc_reciprocity"],
                                variables=sp.dim - 1))
        kindl.twin_for(run, sp, "C02 scenario")
    except af.NonAffine as e:
        # a data-dependent branch on the source: reciprocity is replayed on special sources (uniform, tiny, sparse ...)
        run.queries["sat"] += 1
        o = run.ob("result_is_an_affine_function_of_the_source")
        o["queries"] += 1
        o["sat"] += 1
        run.cex.append(dict(scenario=dict(sc, meas=meas_points(sc["ny"], sc["nx"])[0]), obligation="flux_reciprocity", special=str(e)))
    except Exception as e:  # an exception of the code under test on a valid input
        import traceback

        run.errors.append("exception in scenario %s: %s" % (sc, traceback.format_exc()[-1500:]))
    return run.export()


def replay(rec):
    """Run the failing input through the real package (public API)."""
    real = kindl.real_pkg()
    S = real.solver.steady_state_transport_solver
    sc = rec["scenario"]
    if "q" not in rec:
        best = None
        for qf in kindl.special_fields(sc["ny"], sc["nx"]):
            r_ = replay(dict(rec, q=qf.tolist(), bg=0.35))
            if best is None or r_["max_rel_discrepancy"] > best["max_rel_discrepancy"]:
                best = dict(r_, special_source=qf.tolist())
        return best
    q = np.array(rec["q"], float)
    bg = float(rec.get("bg", 0.0))
    z, prof = kindl.profiles(sc["pid"], sc["n"], seed=sc.get("seed", 0))
    dom = (sc["nx"] * sc["dx"], sc["ny"] * sc["dy"])
    i, j = sc["meas"]
    kw = dict(modes=tuple(sc["modes"]), halo=sc["halo"], precision=sc["precision"])
    nl = len(sc["levels"])
    g, c, f = S(q, z, prof, dom, sc["levels"], srf_bg_conc=bg, **kw)
    g, cf, ff = S(q, z, prof, dom, sc["levels"], meas_pt=(i * sc["dx"], j * sc["dy"]), footprint=True, **kw)
    shp = (nl,) + q.shape
    c, f, cf, ff = (np.reshape(a, shp) for a in (c, f, cf, ff))
    out = {"levels": []}
    worst = 0.0
    for k in range(nl):
        lf, rf = float(real.utils.point_measurement(q, ff[k])), float(f[k][j, i])
        lc, rc = float(real.utils.point_measurement(q, cf[k])), float(c[k][j, i] - bg)
        sf = max(np.abs(f[k]).max(), 1e-300)
        scn = max(np.abs(c[k] - bg).max(), 1e-300)
        e = max(abs(lf - rf) / sf, abs(lc - rc) / scn)
        worst = max(worst, e)
        out["levels"].append(dict(level=sc["levels"][k], sum_q_fp=lf, flx_fwd=rf, sum_q_cgf=lc, conc_fwd_minus_bg=rc))
    out["max_rel_discrepancy"] = worst
    out["tolerance"] = REPLAY_TOL[sc["precision"]]
    out["confirmed"] = bool(worst > out["tolerance"])
    return out


CANARIES = [
    ("shift_uses_halo", {"solver": [("xm + px * dx", "xm + halo")]}),
    ("shift_sign", {"solver": [("shift = np.exp(1j * (Lx * (xm + px * dx)", "shift = np.exp(-1j * (Lx * (xm + px * dx)")]}),
    ("fp_inverse_instead_of_forward", {"solver": [('q = fft2(fftq, norm="backward").real', 'q = ifft2(fftq, norm="forward").real')]}),
    ("unit_source_norm", {"solver": [("/ nxe / nye", "/ nx / ny")]}),
]


def main(run):
    run.explanation = (
        "Symbolic execution of the repository's solver stack on affine forms (every entry of the "
        "surface-flux field and the background are solver variables); z3 decides, per scenario, "
        "measurement point and level set, whether the footprint-weighted sum and the forward run "
        "are the same linear form for all fields in the unit box (=> all fields). Sizes, profiles, "
        "halo, modes are concrete per scenario (the bounds)."
    )
    run.assumptions = [
        "real arithmetic with the production doubles as coefficients (no IEEE rounding of the FFT / sweep)",
        "tolerance 1e-9 relative to the largest coefficient of the compared forms",
        "pyfftw = mathematical DFT; numba preserves Python semantics",
        "profiles restricted to the listed concrete families; shooting growth sum Re(lambda) dz <= 12 (quick) / 14 (thorough)",
    ]
    kindl.validate_encoding(run)
    scs = scenarios(run.tier, run.seed)
    run.bounds = dict(
        grids=sorted({(s["ny"], s["nx"]) for s in scs}), profiles=sorted({s["pid"] for s in scs}),
        layers=sorted({s["n"] for s in scs}), halo_classes="None, 0, commensurate, incommensurate, x-only commensurate, large",
        measurement_points="all on-grid points for grids <= 16 cells, corners/centre/one interior otherwise",
        outside="grids > 8x8, > 9 layers, other profile families, rounding",
    )
    cex = run.pmap(worker, scs)
    handle_cex(run, cex)
    if run.tier == "thorough" or True:
        canaries(run, scs)


def handle_cex(run, cex):
    seen = 0
    for rec in cex:
        if seen >= 6:
            break
        seen += 1
        res = replay(rec)
        rec = dict(rec, property=PID, replay=res, cmd="./check C02 --replay <this file>")
        run.report(rec, res["confirmed"])


def canary_probe(sym, sc):
    sp = sym.sp
    ny, nx = sc["ny"], sc["nx"]
    z, prof = kindl.profiles(sc["pid"], sc["n"], seed=sc["seed"])
    q = sym.field((ny, nx))
    bg = sym.var("bg")
    dom = (nx * sc["dx"], ny * sc["dy"])
    kw = dict(modes=sc["modes"], halo=sc["halo"], precision=sc["precision"])
    g, cfw, ffw = sym.S(q, z, prof, dom, sc["levels"], srf_bg_conc=bg, **kw)
    nl = len(sc["levels"])
    ffw = np.reshape(ffw, (nl, ny, nx))
    i, j = nx - 1, ny - 1
    cfp, ffp = _solve_pair(sym, sc, i, j, q, bg, z, prof)
    ffp = np.reshape(ffp, (nl, ny, nx))
    pm = sym.utils.point_measurement
    lhs = np.array([pm(q, ffp[k]) for k in range(nl)], dtype=object)
    rhs = np.array([ffw[k][j, i] for k in range(nl)], dtype=object)
    return kindl.quick_sat(sp, lhs, rhs)


def canaries(run, scs):
    """In-memory source mutants that the harness must notice (sat)."""
    cscs = kindl.base_scenarios("quick", 0)
    pick = [s for s in cscs if s["halo"] not in (None, 0.0) and abs(s["halo"] / s["dx"] - round(s["halo"] / s["dx"])) > 1e-9][:2]
    pick += [s for s in cscs if s["halo"] == 0.0][:1]
    kindl.run_canaries(run, "vf.props.C02:canary_probe", CANARIES, pick)
