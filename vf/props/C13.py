"""C13 - config-driven run equals the explicit wind-profiles-source-solver
pipeline.  Engine B (CrossHair) on the repository's own run_bldfm_single,
MetConfig.get_step, parse_config_dict, _parse_*, load_config.  The four
numeric leaves are recording stubs returning tokens; the expectation (what
the documented pipeline is called with) is written independently in the
harness (vf/props/ch/c13.py)."""
import os

from .. import chrun

PID = "C13"
HERE = os.path.dirname(os.path.abspath(__file__))
TEMPLATE = os.path.join(HERE, "ch", "c13.py")
CONDITIONS = ["check_single", "check_full_output", "check_single_defaults", "check_scalar_forcing",
              "check_parse_domain", "check_parse_reference_origin", "check_parse_met", "check_parse_solver"]
TWINS = ["twin_single", "twin_parse"]
DESCRIBE = {
    "check_single": "run_bldfm_single hands (speed, dir) to the wind decomposition, (n, tower height, (u,v), mol, closure, z0-else-ustar) to the profiles, the configured or supplied flux, tower x,y, levels, modes, halo, precision, flags, cache to the solver; result carries timestamp/params/tower",
    "check_full_output": "full_output yields levels 0..nz",
    "check_single_defaults": "None-valued options (default halo, no src_loc, no cache) and real booleans pass through",
    "check_scalar_forcing": "scalar forcing, all defaults",
    "check_parse_domain": "YAML file == dict; domain/tower defaults and local coordinates",
    "check_parse_reference_origin": "reference origin on the equator / Greenwich meridian (0 or 0.0): tower local coordinates = latlon_to_xy",
    "check_parse_met": "YAML file == dict; met defaults",
    "check_parse_solver": "YAML file == dict; solver/output/parallel defaults",
}


def main(run):
    quick = run.tier == "quick"
    subst = dict(LMAX=3, NZMAX=4 if quick else 8)
    run.explanation = (
        "CrossHair symbolic execution (z3 per path) of the repository's interface and config parser with recording stubs at "
        "the four numeric leaves; only 'Confirmed over all paths' counts as held. Symbolic: grid sizes, levels (explicit / "
        "full / default), halo, modes tokens, precision/closure/shape/flag tokens, z0-only / ustar / both forcing, three-entry "
        "lists of all four met fields with symbolic entries and symbolic step index, timestamps present or not, tower height and "
        "local coordinates, user-supplied flux or not, cache; for the parser: presence of every optional key."
    )
    run.assumptions = [
        "compute_wind_fields, vertical_profiles, ideal_source, steady_state_transport_solver are recording stubs returning tokens",
        "a configured roughness length takes precedence over the friction velocity (interface.py comment; examples/configs/parallel.yaml)",
        "yaml.safe_load returns the dictionary (contract stub); tower coordinates concrete in the parser condition (C17 covers the transform)",
        "pass-through options are opaque int tokens; lists have three entries (C16 covers lengths)",
    ]
    run.bounds = dict(subst)
    run.stubs = ["interface.compute_wind_fields / vertical_profiles / ideal_source / steady_state_transport_solver -> recording stubs",
                 "config_parser.yaml.safe_load, Path, open -> stubs returning the dictionary"]
    from ..symnp.loader import Loader

    L = Loader(run=run)
    L.record("interface", "run_bldfm_single")
    L.record("config_parser", "MetConfig.get_step", "parse_config_dict", "load_config", "_parse_domain", "_parse_tower", "_parse_met",
             "_parse_solver", "_parse_output", "_parse_parallel", "BLDFMConfig.__post_init__", "TowerConfig.compute_local_xy")
    res = chrun.run_conditions(run, TEMPLATE, subst, CONDITIONS, TWINS, 150 if quick else 600, PID, DESCRIBE)
    for fn, rec, ok in res:
        run.report(rec, ok)


def replay(rec):
    return chrun.replay_record(rec, os.path.join(HERE, "ch"))
