"""C20 - source-area rescaling and percentile contours mean what they say.

Kind D + linear arithmetic.  The repository's utils.get_source_area and
plotting.footprint.extract_percentile_contour (+ _maybe_slice_level) are
executed on z3 real terms: f >= 0 and g of n cells are symbolic (the fraction p,
the cell sizes and the scale factor of the contour obligations are concrete
rationals so that every query stays linear).  np.argsort returns ANY permutation
that sorts its argument (z3 integers, Distinct, sortedness), so every
tie-breaking is covered; np.searchsorted returns the least index whose
cumulative sum reaches the target; indexing with symbolic index arrays is an
if-then-else chain (select / scatter).  z3 decides:

get_source_area
  - rescaled[i] lies between sum{f_j : g_j > g_i} and sum{f_j : g_j >= g_i, j != i}
    (ties may or may not be counted), hence in [0, total - f_i];
  - g_i < g_j  =>  rescaled[i] >= rescaled[j];
  - with pairwise distinct g: equality with the strict sum; invariance under a
    strictly increasing map of g (any g' with the same order) and under a
    common permutation of the cells.
extract_percentile_contour
  - count = area / (dx dy) is the least number of highest cells whose sum
    reaches p * total and level is the smallest of them (stated without
    sorting: all cells above the level plus some cells equal to it); area does not decrease and level does not increase with
    p; scaling f scales the level and keeps the area; 3-D input is sliced at
    `level`; 1-D and 2-D coordinate arrays give the same result.
Additionally, with g produced concretely by the five built-in base functions on
symmetric grids (real ties) and f symbolic, numpy's REAL argsort order is used
and the bracket obligation is decided for the resulting concrete order."""
import itertools
import types
from fractions import Fraction as F

import numpy as np
import z3

from ..symnp import exact as ex
from ..symnp.loader import Loader

PID = "C20"


class SI:
    """symbolic integer (index)"""

    def __init__(self, t):
        self.t = t if z3.is_expr(t) else z3.IntVal(int(t))

    def __add__(self, o):
        return SI(self.t + (o.t if isinstance(o, SI) else int(o)))

    __radd__ = __add__

    def __sub__(self, o):
        return SI(self.t - (o.t if isinstance(o, SI) else int(o)))

    def __mul__(self, o):
        if isinstance(o, SI):
            return SI(self.t * o.t)
        if isinstance(o, (int, np.integer)):
            return SI(self.t * int(o))
        return ex.R(z3.ToReal(self.t)) * o

    __rmul__ = __mul__

    def __index__(self):
        raise TypeError("symbolic index used concretely")


def _elem(e):
    return ex.zt(e)


class SArr(ex.XArr):
    """XArr with symbolic-index select / scatter.  `.dtype` (as seen by the code under test) reports
    the numpy dtype the array would have: int64 for integer-kind arrays, float64 otherwise."""

    ubits = 0  # > 0: unsigned integer array of that width (arithmetic wraps modulo 2**ubits, as numpy's does)

    def __array_finalize__(self, obj):
        ex.XArr.__array_finalize__(self, obj)
        self.ubits = int(getattr(obj, "ubits", 0) or 0)

    @property
    def dtype(self):
        if self.ubits:
            return np.dtype("uint%d" % self.ubits)
        return np.dtype("int64") if self.ikind else np.dtype("float64")

    def __neg__(self):
        if not self.ubits:
            return np.negative(self)
        m = 2 ** self.ubits
        out = np.empty(self.shape, dtype=object)
        for idx in np.ndindex(self.shape):
            t = _elem(np.ndarray.__getitem__(self, idx))
            out[idx] = ex.R(z3.If(t == 0, z3.RealVal(0), m - t))
        out = out.view(SArr)
        out.ikind, out.ubits = True, self.ubits
        return out

    def __getitem__(self, key):
        if isinstance(key, SI):
            base = np.asarray(self, dtype=object).ravel()
            e = _elem(base[-1])
            for j in range(base.size - 2, -1, -1):
                e = z3.If(key.t == j, _elem(base[j]), e)
            return ex.R(e)
        if isinstance(key, np.ndarray) and key.dtype == object and key.size and isinstance(key.ravel()[0], SI):
            out = np.empty(key.shape, dtype=object)
            for k in np.ndindex(key.shape):
                out[k] = self[key[k]]
            return out.view(SArr)
        r = np.ndarray.__getitem__(self, key)
        return r.view(SArr) if isinstance(r, np.ndarray) else r

    def __setitem__(self, key, val):
        if isinstance(key, np.ndarray) and key.dtype == object and key.size and isinstance(key.ravel()[0], SI):
            base = np.asarray(self, dtype=object)
            vals = np.asarray(val, dtype=object).ravel()
            if self.ikind:
                c_ = ex.ctx()
                c_.truncations = getattr(c_, "truncations", 0) + 1
                vals = np.array([ex._trunc(v) for v in vals], dtype=object)
            for j in range(base.size):
                e = _elem(base.flat[j]) if base.flat[j] is not None else z3.RealVal(0)
                for k in range(key.size):
                    e = z3.If(key.flat[k].t == j, _elem(vals[k]), e)
                np.ndarray.__setitem__(self.reshape(-1), j, ex.R(e))
            return
        np.ndarray.__setitem__(self, key, val)


def sarr(vals, shape=None):
    a = np.empty(len(vals), dtype=object)
    for i, v in enumerate(vals):
        a[i] = v if isinstance(v, ex.R) else ex.R(v)
    a = a.view(SArr)
    return a.reshape(shape) if shape else a


class NP20(ex.XNP):
    """exact numpy + sorting primitives as solver constraints"""

    real_argsort = None  # set to use numpy's own order on concrete keys

    def argsort(self, a, *args, **k):
        a = np.asarray(a, dtype=object).ravel()
        if all(isinstance(e, ex.R) and e.is_const() for e in a) or a.dtype != object:
            return np.argsort(np.array([float(ex.R(e).v) for e in a]), *args, **k)
        c = ex.ctx()
        n = a.size
        tag = c.__dict__.setdefault("nsort", 0)
        c.nsort = tag + 1
        o = [z3.Int("ord%d_%d" % (tag, i)) for i in range(n)]
        c.assume += [z3.And(x >= 0, x < n) for x in o] + ([z3.Distinct(o)] if n > 1 else [])
        sel = []
        for i in range(n):
            e = _elem(a[n - 1])
            for j in range(n - 2, -1, -1):
                e = z3.If(o[i] == j, _elem(a[j]), e)
            sel.append(e)
        c.assume += [sel[i] <= sel[i + 1] for i in range(n - 1)]
        out = np.empty(n, dtype=object)
        for i in range(n):
            out[i] = SI(o[i])
        return out

    def cumsum(self, a, *args, **k):
        a = np.asarray(a, dtype=object).ravel()
        out, acc = [], ex.R(0)
        for e in a:
            acc = acc + e
            out.append(acc)
        return sarr(out)

    def zeros_like(self, a, dtype=None, **k):
        return sarr([ex.R(0)] * np.size(a), np.shape(a))

    def _alloc(self, shape, dtype):
        if isinstance(shape, (int, np.integer)):
            shape = (int(shape),)
        n = int(np.prod(shape)) if len(shape) else 1
        out = sarr([ex.R(0)] * n, tuple(shape))
        try:
            out.ikind = dtype is not None and np.dtype(dtype).kind in "iu"
        except TypeError:
            out.ikind = False
        return out

    def empty(self, shape, dtype=float, **k):
        return self._alloc(shape, dtype)

    def zeros(self, shape, dtype=float, **k):
        return self._alloc(shape, dtype)

    def empty_like(self, a, dtype=None, **k):
        out = sarr([ex.R(0)] * np.size(a), np.shape(a))
        if dtype is None and getattr(a, "ikind", False):
            out.ikind = True  # numpy: the result inherits the (integer) dtype of `a`
        return out

    def searchsorted(self, a, v, side="left", **k):
        a = np.asarray(a, dtype=object).ravel()
        c = ex.ctx()
        n = a.size
        tag = c.__dict__.setdefault("nsearch", 0)
        c.nsearch = tag + 1
        kk = z3.Int("pos%d" % tag)
        vt = ex.zt(v)
        cons = [kk >= 0, kk <= n]
        for i in range(n):
            cons.append(z3.Implies(i < kk, _elem(a[i]) < vt) if side == "left" else z3.Implies(i < kk, _elem(a[i]) <= vt))
            cons.append(z3.Implies(kk == i, _elem(a[i]) >= vt) if side == "left" else z3.Implies(kk == i, _elem(a[i]) > vt))
        c.assume += cons
        return SI(kk)

    def abs(self, x):
        return abs(x) if isinstance(x, ex.R) else ex.XNP.abs(self, x)


def smin(a, b):
    if isinstance(a, SI) or isinstance(b, SI):
        ta = a.t if isinstance(a, SI) else z3.IntVal(int(a))
        tb = b.t if isinstance(b, SI) else z3.IntVal(int(b))
        return SI(z3.If(ta <= tb, ta, tb))
    return min(a, b)


def slen(x):
    return len(x)


def load(patch=None):
    ns = types.SimpleNamespace
    env = ex.exact_env(extra_modules={"matplotlib": ns(pyplot=ns()), "matplotlib.pyplot": ns()})
    env["modules"]["numpy"] = NP20()
    env["builtins"] = dict(env["builtins"], min=smin)
    env["patch"] = patch or {}
    L = Loader(env)
    utils = L.load("utils")
    fp = L.load("plotting.footprint")
    return L, utils, fp


# ---------------------------------------------------------------------------


def ask(run, c, name, bad, scn, account, found, timeout_ms=120000):
    s = ex.solver_for(c, timeout_ms=timeout_ms)
    s.add(z3.Or(bad) if bad else z3.BoolVal(False))
    if account:
        r = run.solve(s, name, scn, timeout_ms=timeout_ms)
    else:
        r = str(s.check())
    if r == "sat":
        m = s.model()
        vals = {}
        for d in m.decls():
            if d.name()[0] in "fgpda" and "!" not in d.name():
                v = m[d]
                try:
                    vals[d.name()] = float(v.numerator_as_long()) / float(v.denominator_as_long())
                except Exception:
                    pass
        found.append((name, scn, vals))
    return r


def source_area_part(run, utils, shapes, account=True):
    found = []
    for shape in shapes:
        n = shape[0] * shape[1]
        c = ex.new_ctx()
        fv = [c.real("f%d" % i) for i in range(n)]
        gv = [c.real("g%d" % i) for i in range(n)]
        c.assume += [x.v >= 0 for x in fv]
        layout = "C"
        int_g = False
        ubits = 0
        if len(shape) == 3 and shape[2] == "I":  # integer-typed base field (class map, sector index)
            shape, int_g = (shape[0], shape[1]), True
        if len(shape) == 3 and shape[2] == "U":  # unsigned class map (uint8): integers 0..255, wrapping arithmetic
            shape, int_g, ubits = (shape[0], shape[1]), True, 8
            c.assume += [z3.And(x.v >= 0, x.v <= 255, z3.IsInt(x.v)) for x in gv]
        if len(shape) == 3:  # (ny, nx, "T"): the same logical arrays passed as transposed (non C-contiguous) views
            shape, layout = (shape[0], shape[1]), "transposed view"
            fa = sarr(fv, (shape[1], shape[0])).T
            ga = sarr(gv, (shape[1], shape[0])).T
            # logical (row-major) order of the views
            fv = [fa[idx] for idx in np.ndindex(shape)]
            gv = [ga[idx] for idx in np.ndindex(shape)]
        else:
            fa, ga = sarr(fv, shape), sarr(gv, shape)
        if int_g:
            ga.ikind = True
            layout = "C, integer-typed g"
        if ubits:
            ga.ubits = ubits
            layout = "C, unsigned integer g (uint%d)" % ubits
        res = utils.get_source_area(fa, ga)
        scn = dict(function="get_source_area", shape=list(shape), memory_layout=layout)
        if int_g:
            tr = getattr(c, "truncations", 0)
            if account:
                o = run.ob("integer_typed_base_field_never_truncates_the_result")
                o["queries"] += 1
                o["sat" if tr else "unsat"] += 1
                run.queries["sat" if tr else "unsat"] += 1
                run.nontrivial.add(("integer_typed_base_field", repr(scn)))
            if tr:
                found.append(("integer_typed_base_field_never_truncates_the_result", scn, dict(truncating_stores=tr)))
                continue
        if np.shape(res) != tuple(shape):
            found.append(("result_keeps_the_shape", scn, {}))
            continue
        r = [ex.zt(e) for e in np.asarray(res, dtype=object).ravel()]
        f = [x.v for x in fv]
        g = [x.v for x in gv]
        if account:
            run.twin(ex.solver_for(c), "C20 source area %s" % (shape,))
        bad = []
        for i in range(n):
            lo = z3.Sum([z3.If(g[k] > g[i], f[k], 0) for k in range(n)])
            hi = z3.Sum([z3.If(g[k] >= g[i], f[k], 0) for k in range(n) if k != i]) if n > 1 else z3.RealVal(0)
            bad.append(z3.Or(r[i] < lo, r[i] > hi))
        ask(run, c, "rescaled_between_strict_and_tied_sums", bad, scn, account, found)
        bad = [z3.And(g[i] < g[j], r[i] < r[j]) for i in range(n) for j in range(n) if i != j]
        ask(run, c, "rescaled_does_not_increase_with_g", bad, scn, account, found)
        # distinct g: exact strict sum, order-isomorphic g', permutation
        c.assume.append(z3.Distinct(g) if n > 1 else z3.BoolVal(True))
        bad = [r[i] != z3.Sum([z3.If(g[k] > g[i], f[k], 0) for k in range(n)]) for i in range(n)]
        ask(run, c, "distinct_g_equals_strict_sum", bad, scn, account, found)
        g2 = [c.real("h%d" % i) for i in range(n)]
        c.assume += [(g[i] < g[j]) == (g2[i].v < g2[j].v) for i in range(n) for j in range(n) if i < j]
        c.assume += [z3.Distinct([x.v for x in g2])] if n > 1 else []
        res2 = utils.get_source_area(sarr(fv, shape), sarr(g2, shape))
        r2 = [ex.zt(e) for e in np.asarray(res2, dtype=object).ravel()]
        ask(run, c, "invariant_under_increasing_transformation_of_g", [a != b for a, b in zip(r, r2)], scn, account, found)
        perm = list(range(1, n)) + [0] if n > 1 else [0]
        res3 = utils.get_source_area(sarr([fv[p] for p in perm], shape), sarr([gv[p] for p in perm], shape))
        r3 = [ex.zt(e) for e in np.asarray(res3, dtype=object).ravel()]
        ask(run, c, "commutes_with_a_common_permutation_of_cells", [r3[k] != r[perm[k]] for k in range(n)], scn, account, found)
        if account:
            run.sample(dict(scn, sort_permutation_variables=n, note="argsort = any sorting permutation"), cap=3)
    return found


PCTS = [F(1, 10), F(1, 2), F(4, 5), F(1)]


def contour_part(run, fp, shapes, account=True):
    """fractions, cell sizes and the scale factor are concrete rationals (keeps every query linear);
    the field is symbolic"""
    found = []
    dxv, dyv, av = F(2), F(3), F(7, 2)
    for shape in shapes:
        ny, nx = shape
        n = ny * nx
        for coords in ("2d", "1d"):
            c = ex.new_ctx()
            fv = [c.real("f%d" % i) for i in range(n)]
            c.assume += [x.v >= 0 for x in fv]
            c.assume.append(z3.Sum([x.v for x in fv]) > 0)
            dx, dy = ex.R(dxv), ex.R(dyv)
            xs = [dx * i for i in range(nx)]
            ys = [dy * j for j in range(ny)]
            if coords == "2d":
                X = sarr([xs[i] for j in range(ny) for i in range(nx)], (ny, nx))
                Y = sarr([ys[j] for j in range(ny) for i in range(nx)], (ny, nx))
            else:
                X, Y = sarr(xs), sarr(ys)
            grid = (X, Y, None)
            flx = sarr(fv, shape)
            f = [x.v for x in fv]
            total = z3.Sum(f)
            cell = dxv * dyv
            scn0 = dict(function="extract_percentile_contour", shape=list(shape), coordinates=coords)
            if account:
                run.twin(ex.solver_for(c), "C20 contour %s %s" % (shape, coords))
            prev = None
            for pv in PCTS:
                lvl, area = fp.extract_percentile_contour(flx, grid, pct=ex.R(pv))
                lvl, area = ex.zt(lvl), ex.zt(area)
                scn = dict(scn0, p=str(pv))
                T = z3.Q(pv.numerator, pv.denominator) * total
                # independent description (no sorting): with L the level and c the count,
                #   the chosen cells are all cells above L plus some of the cells equal to L;
                #   their sum reaches the target and the sum of one cell fewer does not
                above = z3.Sum([z3.If(f[k] > lvl, 1, 0) for k in range(n)])
                equal = z3.Sum([z3.If(f[k] == lvl, 1, 0) for k in range(n)])
                s_above = z3.Sum([z3.If(f[k] > lvl, f[k], 0) for k in range(n)])
                ok = []
                for m in range(1, n + 1):
                    for a_ in range(0, m):
                        ok.append(z3.And(area == z3.Q((m * cell).numerator, (m * cell).denominator), above == a_, equal >= m - a_,
                                         s_above + (m - a_) * lvl >= T, s_above + (m - a_ - 1) * lvl < T))
                ask(run, c, "fewest_highest_cells_reaching_the_fraction", [z3.Not(z3.Or(ok))], scn, account, found)
                if prev is not None:
                    ask(run, c, "monotone_in_the_fraction", [z3.Or(prev[1] > area, prev[0] < lvl)], dict(scn, p_smaller=prev[2]), account, found)
                prev = (lvl, area, str(pv))
                if pv == F(1, 2):
                    lvl3, area3 = fp.extract_percentile_contour(sarr([x * ex.R(av) for x in fv], shape), grid, pct=ex.R(pv))
                    ask(run, c, "scaling_f_scales_level_keeps_area", [ex.zt(lvl3) != z3.Q(av.numerator, av.denominator) * lvl, ex.zt(area3) != area], scn, account, found)
                    if coords == "2d":
                        other = sarr([c.real("o%d" % i) for i in range(n)], shape)
                        f3 = np.empty((2, ny, nx), dtype=object)
                        f3[0], f3[1] = other, flx
                        X3 = np.empty((2, ny, nx), dtype=object)
                        Y3 = np.empty((2, ny, nx), dtype=object)
                        X3[0] = X3[1] = X
                        Y3[0] = Y3[1] = Y
                        Z3 = np.zeros((2, ny, nx))
                        lvl4, area4 = fp.extract_percentile_contour(f3.view(SArr), (X3.view(SArr), Y3.view(SArr), Z3), pct=ex.R(pv), level=1)
                        ask(run, c, "three_d_input_sliced_at_level", [ex.zt(lvl4) != lvl, ex.zt(area4) != area], scn, account, found)
    return found


def base_function_part(run, utils_sym, account=True):
    """the five built-in base functions on symmetric grids (real ties, numpy's own argsort order) with f symbolic"""
    import logging

    logging.disable(logging.CRITICAL)
    import bldfm.utils as RU

    found = []
    ny, nx = 3, 3
    X, Y = np.meshgrid(np.arange(nx) * 10.0, np.arange(ny) * 10.0)
    flx0 = np.array([[1.0, 2.0, 1.0], [2.0, 5.0, 2.0], [1.0, 2.0, 1.0]])
    bases = {
        "contribution": RU.source_area_contribution(flx0),
        "circular": RU.source_area_circular(X, Y, (10.0, 10.0)),
        "upwind": RU.source_area_upwind(X, Y, (10.0, 10.0), (3.0, 0.0)),
        "crosswind": RU.source_area_crosswind(X, Y, (10.0, 10.0), (3.0, 0.0)),
        "sector": RU.source_area_sector(X, Y, (10.0, 10.0), (3.0, 0.0)),
    }
    for name, gc in bases.items():
        c = ex.new_ctx()
        n = ny * nx
        fv = [c.real("f%d" % i) for i in range(n)]
        c.assume += [x.v >= 0 for x in fv]
        g = np.asarray(gc, float)
        res = utils_sym.get_source_area(sarr(fv, (ny, nx)), sarr([ex.R(F(float(v))) for v in g.ravel()], (ny, nx)))
        r = [ex.zt(e) for e in np.asarray(res, dtype=object).ravel()]
        f = [x.v for x in fv]
        gl = list(g.ravel())
        bad = []
        for i in range(n):
            lo = z3.Sum([f[k] for k in range(n) if gl[k] > gl[i]] or [z3.RealVal(0)])
            hi = z3.Sum([f[k] for k in range(n) if gl[k] >= gl[i] and k != i] or [z3.RealVal(0)])
            bad.append(z3.Or(r[i] < lo, r[i] > hi))
        ask(run, c, "built_in_base_functions_with_ties", bad, dict(base=name, grid=[ny, nx], ties=int(n - len(set(gl)))), account, found)
    return found


def replay(rec):
    import logging

    logging.disable(logging.CRITICAL)
    from bldfm.plotting.footprint import extract_percentile_contour
    from bldfm.utils import get_source_area

    rng = np.random.default_rng(0)
    bad = []
    m = rec.get("model", {})
    cases = []
    for shape in ((2, 3), (3, 3), (1, 5)):
        n = shape[0] * shape[1]
        cases.append((rng.random(shape), rng.random(shape)))
        cases.append((rng.random(shape), np.round(rng.random(shape) * 3) / 3))
        cases.append((np.where(rng.random(shape) > 0.5, rng.random(shape), 0.0), rng.integers(0, 3, shape).astype(float)))
        cases.append((np.asfortranarray(rng.random(shape)), np.asfortranarray(rng.random(shape))))
        cases.append((rng.random(shape[::-1]).T, rng.random(shape[::-1]).T))
    if m:
        nn = len([k for k in m if k.startswith("f") and k[1:].isdigit()])
        if nn:
            fm = np.array([m.get("f%d" % i, 0.0) for i in range(nn)])
            gm = np.array([m.get("g%d" % i, float(i)) for i in range(nn)])
            cases.append((fm.reshape(1, nn), gm.reshape(1, nn)))
    cases.append((rng.random((2, 3)), np.array([[3, 1, 2], [0, 5, 4]])))
    cases.append((rng.random((2, 2)), np.array([[3, 1], [2, 0]], dtype=np.int32)))
    cases.append((rng.random((2, 2)), np.array([[3, 1], [2, 0]], dtype=np.uint8)))
    cases.append((rng.random((2, 3)), np.array([[7, 0, 2], [0, 5, 200]], dtype=np.uint16)))
    if m and "unsigned" in str(rec.get("scenario", {}).get("memory_layout", "")) and nn:
        cases.append((fm.reshape(1, nn), np.round(gm).astype(np.uint8).reshape(1, nn)))
    for f, g in cases:
        r = get_source_area(f, g)
        if r.shape != g.shape:
            bad.append(["shape", list(r.shape)])
            continue
        for idx in np.ndindex(g.shape):
            lo = f[g > g[idx]].sum()
            hi = f[g >= g[idx]].sum() - f[idx]
            if r[idx] < lo - 1e-12 or r[idx] > hi + 1e-12:
                bad.append(["bracket", f.tolist(), g.tolist(), list(idx), float(r[idx]), float(lo), float(hi)])
                break
    for shape in ((3, 4), (2, 2)):
        fl = rng.random(shape)
        fl.flat[0] = fl.flat[1]
        X, Y = np.meshgrid(np.arange(shape[1]) * 2.0, np.arange(shape[0]) * 3.0)
        prev = None
        for p in (0.1, 0.3, 0.5, 0.8, 1.0, m.get("p", 0.6)):
            if not (0 < p <= 1):
                continue
            lv, ar = extract_percentile_contour(fl, (X, Y, None), pct=p)
            s = np.sort(fl.ravel())[::-1]
            cnt = int(np.searchsorted(np.cumsum(s), p * s.sum() - 1e-15) + 1)
            if abs(ar - cnt * 6.0) > 1e-9 or abs(lv - s[cnt - 1]) > 1e-12:
                bad.append(["contour", p, float(lv), float(ar), cnt, float(s[cnt - 1])])
            lv2, ar2 = extract_percentile_contour(3.0 * fl, (X, Y, None), pct=p)
            if abs(lv2 - 3 * lv) > 1e-9 or abs(ar2 - ar) > 1e-9:
                bad.append(["scaling", p])
            lv3, ar3 = extract_percentile_contour(fl, (X[0], Y[:, 0], None), pct=p)
            if abs(lv3 - lv) > 1e-12 or abs(ar3 - ar) > 1e-9:
                bad.append(["1d coords", p])
    return dict(discrepancies=bad[:6], confirmed=bool(bad))


CANARIES = [
    ("inclusive_cumulative_sum", {"utils": [("    M_shifted[1:] = M_cum[:-1]\n", "    M_shifted[:] = M_cum\n")]}, "area"),
    ("ascending_sort", {"utils": [("    order = np.argsort(g_flat)[::-1]\n", "    order = np.argsort(g_flat)\n")]}, "area"),
    ("sorted_by_f_not_g", {"utils": [("    order = np.argsort(g_flat)[::-1]\n", "    order = np.argsort(f_flat)[::-1]\n")]}, "area"),
    ("memory_order_flatten", {"utils": [("    f_flat = f.ravel()\n", "    f_flat = f.ravel()[::-1][::-1] if False else np.asarray(f).T.ravel() if np.ndim(f) == 2 and f.shape[0] != f.shape[1] else f.ravel()\n")]}, "area"),
    ("result_allocated_like_g", {"utils": [("g_rescaled = np.empty(g_flat.shape, dtype=M_shifted.dtype)", "g_rescaled = np.empty_like(g_flat)")]}, "area_int"),
    ("count_off_by_one", {"plotting.footprint": [("    area = (k + 1) * cell_area", "    area = k * cell_area")]}, "contour"),
    ("level_of_next_cell", {"plotting.footprint": [("level = sorted_vals[min(k, len(sorted_vals) - 1)]", "level = sorted_vals[min(k + 1, len(sorted_vals) - 1)]")]}, "contour"),
    ("searchsorted_right", {"plotting.footprint": [("k = np.searchsorted(cumsum, target)", "k = np.searchsorted(cumsum, target, side=\"right\")")]}, "contour"),
]


def worker(args):
    from ..core import Run

    kind, shapes, patch, account = args
    run = Run(PID)
    run.cex = []
    try:
        L, utils, fp = load(patch)
        if kind == "area":
            f = source_area_part(run, utils, shapes, account=account)
        elif kind == "contour":
            f = contour_part(run, fp, shapes, account=account)
        else:
            f = base_function_part(run, utils, account=account)
        for name, scn, vals in f:
            run.cex.append(dict(obligation=name, scenario=scn, model=vals))
    except KeyError:
        run.cex.append(dict(obligation="n/a"))
    except Exception:
        import traceback

        if account:
            run.errors.append("exception: %s" % traceback.format_exc()[-1500:])
        else:
            run.cex.append(dict(obligation="raised"))
    return run.export()


def main(run):
    quick = run.tier == "quick"
    area_shapes = [(1, 1), (1, 3), (2, 2), (1, 5), (2, 3), (2, 3, "T"), (2, 2, "I"), (2, 2, "U")] if quick else [(1, 1), (1, 3), (2, 2), (1, 5), (2, 3), (2, 3, "T"), (2, 2, "I"), (2, 2, "U"), (1, 3, "U"), (3, 2), (1, 6)]
    # 8 cells ((2, 4)): 13 of 18 contour queries are `unknown` after 300 s each; outside the bound
    contour_shapes = [(2, 2), (2, 3)] if quick else [(2, 2), (2, 3), (3, 2)]
    run.explanation = (
        "The real get_source_area / extract_percentile_contour executed on z3 terms with argsort returning ANY sorting permutation "
        "(symbolic, so every tie-breaking is covered), searchsorted the least admissible index, symbolic-index select/scatter as if-then-else "
        "chains: z3 decides the bracket / monotonicity / distinct-g / invariance obligations for all non-negative f and all g of up to "
        "%d cells, and the contour obligations (count, level, area, monotonicity in p, scaling, 3-D slicing, 1-D/2-D coordinates) for all "
        "f of up to %d cells with p in {0.1, 0.5, 0.8, 1}, concrete cell sizes and scale factor." % (max(a[0] * a[1] for a in area_shapes), max(a * b for a, b in contour_shapes))
    )
    run.assumptions = [
        "np.argsort = any permutation that sorts its argument; np.searchsorted(side='left') = least index with cumsum >= target; np.cumsum exact",
        "f >= 0, total > 0 (contours); reals for doubles",
        "bounds: cells <= %d (source area), <= %d (contours)" % (max(a[0] * a[1] for a in area_shapes), max(a * b for a, b in contour_shapes)),
    ]
    L, utils, fp = load()
    L.run = run
    L.record("utils", "get_source_area")
    L.record("plotting.footprint", "extract_percentile_contour")
    L.record("plotting._common", "_maybe_slice_level")
    run.transforms = L.transforms()
    jobs = [("area", [s], None, True) for s in area_shapes] + [("contour", [s], None, True) for s in contour_shapes] + [("base", None, None, True)]
    cex = run.pmap(worker, jobs)
    seen = set()
    for c_ in cex:
        if c_["obligation"] in seen:
            continue
        seen.add(c_["obligation"])
        res = replay(c_)
        run.report(dict(c_, property=PID, replay=res, cmd="./check C20 --replay <this file>"), res["confirmed"])
    run.bounds = dict(source_area_shapes=area_shapes, contour_shapes=contour_shapes, base_functions=5)
    cj = [(name, ("area" if kind.startswith("area") else kind, [(2, 2, "I")] if kind == "area_int" else ([(2, 3)] if kind == "area" else [(2, 2)]), patch, False)) for name, patch, kind in CANARIES]
    import concurrent.futures as cf
    import multiprocessing as mp

    with cf.ProcessPoolExecutor(max_workers=len(cj), mp_context=mp.get_context("spawn")) as pool:
        for (name, _), d in zip(cj, pool.map(worker, [a for _, a in cj])):
            obs = [c_["obligation"] for c_ in d["cex"]]
            if obs == ["n/a"]:
                run.note("canary %s not applicable" % name)
                continue
            run.canaries["total"] += 1
            if obs:
                run.canaries["caught"] += 1
            else:
                run.canaries["missed"].append(name)
                run.errors.append("canary %s was not noticed by the harness" % name)
