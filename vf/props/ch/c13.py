"""CrossHair conditions for C13 (config-driven run == explicit pipeline).
The repository's own run_bldfm_single / MetConfig.get_step / parse_config_dict
/ _parse_* / load_config are executed; the four numeric leaves
(compute_wind_fields, vertical_profiles, ideal_source,
steady_state_transport_solver) are replaced by recording stubs that return
tokens, so that what is compared is exactly which numbers the documented
pipeline is called with.  The expectation is written independently here."""
import logging
from typing import List

logging.disable(logging.CRITICAL)

import bldfm.config_parser as CP
import bldfm.interface as I
from bldfm.config_parser import (BLDFMConfig, DomainConfig, MetConfig, OutputConfig, ParallelConfig, SolverConfig,
                                 TowerConfig, latlon_to_xy, parse_config_dict)

calls = {}


def _cwf(ws, wd):
    calls["cwf"] = (ws, wd)
    return (("u", ws, wd), ("v", ws, wd))


def _vp(*a, **kw):
    calls["vp_args"] = a
    calls["vp"] = kw
    return (("z", kw.get("n")), ("prof", kw.get("meas_height")))


def _src(nxy, domain, src_loc=None, shape="diamond"):
    calls["src"] = (nxy, domain, src_loc, shape)
    return ("q0", nxy, domain, src_loc, shape)


def _solver(*a, **kw):
    calls["solver_args"] = a
    calls["solver"] = kw
    return (("grid",), ("conc",), ("flx",))


I.compute_wind_fields = _cwf
I.vertical_profiles = _vp
I.ideal_source = _src
I.steady_state_transport_solver = _solver

def _single(nz, nx, ny, levels_mode, lv0, lv1, halo, footprint, analytic, precision, closure, shape, src,
            ustar_given, ustars, z0_given, z0, mols, wss, wds, ts_given, idx, zm, tx, ty, user_flux, cache):
    # option values that are only passed through are opaque int tokens (no branching on them)
    calls.clear()
    dom = DomainConfig(nx=nx, ny=ny, xmax=100.0, ymax=50.0, nz=nz, modes=(8, 6), halo=halo,
                       output_levels=[lv0, lv1] if levels_mode == 1 else None, full_output=(levels_mode == 2))
    tower = TowerConfig(name="T1", lat=0.0, lon=0.0, z_m=zm, x=tx, y=ty)
    other = TowerConfig(name="T0", lat=0.0, lon=0.0, z_m=zm + 7, x=ty + 1, y=tx + 2)
    stamps = ["s0", "s1", "s2"] if ts_given else None
    met = MetConfig(ustar=list(ustars) if ustar_given else None, mol=list(mols), wind_speed=list(wss), wind_dir=list(wds),
                    z0=z0 if z0_given else None, timestamps=stamps)
    sol = SolverConfig(closure=closure, precision=precision, footprint=footprint, analytic=analytic,
                       surface_flux_shape=shape, src_loc=src)
    cfg = BLDFMConfig(domain=dom, towers=[other, tower], met=met, solver=sol)
    flux = ("userflux",) if user_flux else None
    r = I.run_bldfm_single(cfg, tower, met_index=idx, surface_flux=flux, cache=cache)
    # --- the documented pipeline, written independently
    vp, s = calls["vp"], calls["solver"]
    exp_levels = [lv0, lv1] if levels_mode == 1 else (list(range(nz + 1)) if levels_mode == 2 else nz)
    want_flux = ("userflux",) if user_flux else ("q0", (nx, ny), (100.0, 50.0), src, shape)
    want_vp = dict(n=nz, meas_height=zm, wind=(("u", wss[idx], wds[idx]), ("v", wss[idx], wds[idx])), mol=mols[idx], closure=closure)
    if z0_given:  # a configured roughness length takes precedence over the friction velocity
        want_vp["z0"] = z0
    else:
        want_vp["ustar"] = ustars[idx]
    got_vp = {k: v for k, v in vp.items() if v is not None}
    want_solver = dict(srf_flx=want_flux, z=("z", nz), profiles=("prof", zm), domain=(100.0, 50.0), levels=exp_levels, modes=(8, 6),
                       meas_pt=(tx, ty), footprint=footprint, analytic=analytic, halo=halo, precision=precision, cache=cache)
    want_params = dict(ustar=(ustars[idx] if ustar_given else None), mol=mols[idx], wind_speed=wss[idx], wind_dir=wds[idx],
                       timestamp=(stamps[idx] if ts_given else idx))
    if z0_given:
        want_params["z0"] = z0
    want_r = dict(grid=("grid",), conc=("conc",), flx=("flx",), tower_name="T1", tower_xy=(tx, ty),
                  timestamp=want_params["timestamp"], params=want_params)
    return (calls["cwf"] == (wss[idx], wds[idx]) and calls["vp_args"] == () and calls["solver_args"] == ()
            and got_vp == want_vp and s == want_solver and r == want_r and (("src" in calls) != user_flux))


def check_single(nz: int, nx: int, ny: int, use_levels: bool, lv0: int, lv1: int,
                 halo: int, footprint: int, analytic: int, precision: int, closure: int, shape: int, src: int,
                 ustar_given: bool, u0: int, u1: int, u2: int, z0_given: bool, z0: int, m0: int, m1: int, m2: int,
                 s0: int, s1: int, s2: int, d0: int, d1: int, d2: int,
                 ts_given: bool, idx: int, zm: int, tx: int, ty: int, user_flux: bool, cache: int) -> bool:
    """
    pre: 0 <= idx <= 2 and (ustar_given or z0_given)
    post: _
    """
    return _single(nz, nx, ny, 1 if use_levels else 0, lv0, lv1, halo, footprint, analytic, precision, closure, shape, src,
                   ustar_given, [u0, u1, u2], z0_given, z0, [m0, m1, m2], [s0, s1, s2], [d0, d1, d2], ts_given, idx, zm, tx, ty,
                   user_flux, cache)


def twin_single(nz: int, nx: int, ny: int, use_levels: bool, lv0: int, lv1: int,
                halo: int, footprint: int, analytic: int, precision: int, closure: int, shape: int, src: int,
                ustar_given: bool, u0: int, u1: int, u2: int, z0_given: bool, z0: int, m0: int, m1: int, m2: int,
                s0: int, s1: int, s2: int, d0: int, d1: int, d2: int,
                ts_given: bool, idx: int, zm: int, tx: int, ty: int, user_flux: bool, cache: int) -> bool:
    """
    pre: 0 <= idx <= 2 and (ustar_given or z0_given)
    post: _
    """
    check_single(nz, nx, ny, use_levels, lv0, lv1, halo, footprint, analytic, precision, closure, shape, src, ustar_given, u0, u1, u2,
                 z0_given, z0, m0, m1, m2, s0, s1, s2, d0, d1, d2, ts_given, idx, zm, tx, ty, user_flux, cache)
    return False


def check_full_output(nz: int, zm: int, idx: int, z0_given: bool, user_flux: bool) -> bool:
    """
    pre: 1 <= nz <= {NZMAX} and 0 <= idx <= 2
    post: _
    """
    return _single(nz, 8, 6, 2, 0, 0, 5, 1, 0, 7, 8, 9, 10, True, [1, 2, 3], z0_given, 4, [5, 6, 7], [8, 9, 10], [11, 12, 13], True, idx,
                   zm, 3, 4, user_flux, 11)


def check_single_defaults(nz: int, halo_none: bool, halo: int, src_none: bool, cache_none: bool, footprint: bool, analytic: bool, zm: int) -> bool:
    """
    pre: 1 <= nz <= 4
    post: _
    """
    # None-valued options (default halo, default source location, no cache) and real booleans
    calls.clear()
    dom = DomainConfig(nx=8, ny=6, xmax=100.0, ymax=50.0, nz=nz, modes=(8, 6), halo=None if halo_none else halo)
    tower = TowerConfig(name="T", lat=0.0, lon=0.0, z_m=zm, x=1, y=2)
    sol = SolverConfig(footprint=footprint, analytic=analytic, src_loc=None if src_none else (3, 4))
    cfg = BLDFMConfig(domain=dom, towers=[tower], met=MetConfig(ustar=3), solver=sol)
    I.run_bldfm_single(cfg, tower, cache=None if cache_none else ("c",))
    s = calls["solver"]
    return (s["halo"] == (None if halo_none else halo) and s["footprint"] == footprint and s["analytic"] == analytic
            and s["cache"] == (None if cache_none else ("c",)) and calls["src"][2] == (None if src_none else (3, 4)))


def check_scalar_forcing(nz: int, ustar: int, mol: int, ws: int, wd: int, z0_given: bool, z0: int, zm: int, footprint: bool) -> bool:
    """
    pre: 1 <= nz <= 4
    post: _
    """
    calls.clear()
    dom = DomainConfig(nx=8, ny=6, xmax=100.0, ymax=50.0, nz=nz)
    tower = TowerConfig(name="T", lat=0.0, lon=0.0, z_m=zm, x=3, y=4)
    met = MetConfig(ustar=ustar, mol=mol, wind_speed=ws, wind_dir=wd, z0=z0 if z0_given else None)
    cfg = BLDFMConfig(domain=dom, towers=[tower], met=met, solver=SolverConfig(footprint=footprint))
    r = I.run_bldfm_single(cfg, tower)
    vp, s = calls["vp"], calls["solver"]
    ok = calls["cwf"] == (ws, wd) and vp["mol"] == mol and vp["n"] == nz and vp["meas_height"] == zm and vp["closure"] == "MOST"
    ok = ok and ((vp.get("z0") == z0 and vp.get("ustar") is None) if z0_given else (vp.get("ustar") == ustar and vp.get("z0") is None))
    ok = ok and s["levels"] == nz and s["modes"] == (512, 512) and s["halo"] is None and s["precision"] == "single"
    ok = ok and s["footprint"] == footprint and s["analytic"] is False and s["meas_pt"] == (3, 4) and s.get("cache") is None
    ok = ok and s["srf_flx"] == ("q0", (8, 6), (100.0, 50.0), None, "diamond") and r["timestamp"] == 0
    return ok


# ---------------------------------------------------------------------------
# YAML file == dictionary; documented defaults


class _FakePath:
    def __init__(self, p):
        self.p = p

    def exists(self):
        return True

    def __str__(self):
        return str(self.p)


class _FakeFile:
    def __enter__(self):
        return self

    def __exit__(self, *a):
        return False


_RAW = {}


def _raw(dom_opt: bool, modes0: int, modes1: int, halo_given: bool, halo: int, ref_given: bool, lv_given: bool, lv: int, full_given: bool, full: bool,
         two_towers: bool, lat: int, lon: int, zm: int,
         ustar_given: bool, ustar: int, mol_given: bool, mol: int, ws_given: bool, ws: int, wd_given: bool, wd: int, z0_given: bool, z0: int,
         solver_given: bool, clo_given: bool, prec_given: bool, fp: bool, shape_given: bool, ana: bool, src_given: bool,
         out_given: bool, par_given: bool, nthreads: int, workers: int, use_cache: bool):
    d = {"nx": 8, "ny": 6, "xmax": 100, "ymax": 50, "nz": 3}
    if dom_opt:
        d["modes"] = [modes0, modes1]
    if halo_given:
        d["halo"] = halo
    if ref_given:
        d["ref_lat"] = 50
        d["ref_lon"] = 11
    if lv_given:
        d["output_levels"] = [lv, lv + 1]
    if full_given:
        d["full_output"] = full
    towers = [{"name": "A", "lat": lat, "lon": lon, "z_m": zm}]
    if two_towers:
        towers.append({"name": "B", "lat": lon, "lon": lat, "z_m": zm + 1})
    met = {}
    if ustar_given:
        met["ustar"] = ustar
    if mol_given:
        met["mol"] = mol
    if ws_given:
        met["wind_speed"] = ws
    if wd_given:
        met["wind_dir"] = wd
    if z0_given:
        met["z0"] = z0
    raw = {"domain": d, "towers": towers, "met": met}
    if solver_given:
        sol = {"footprint": fp, "analytic": ana}
        if clo_given:
            sol["closure"] = "MOSTM"
        if prec_given:
            sol["precision"] = "double"
        if shape_given:
            sol["surface_flux_shape"] = "circle"
        if src_given:
            sol["src_loc"] = [3, 4]
        raw["solver"] = sol
    if out_given:
        raw["output"] = {"format": "netcdf", "directory": "./o"}
    if par_given:
        raw["parallel"] = {"num_threads": nthreads, "max_workers": workers, "use_cache": use_cache}
    return raw


def _roundtrip(raw):
    a = parse_config_dict(raw)
    saved = (CP.yaml.safe_load, CP.Path, getattr(CP, "open", None))
    CP.yaml.safe_load = lambda f: raw
    CP.Path = _FakePath
    CP.open = lambda p: _FakeFile()
    try:
        b = CP.load_config("cfg.yaml")
    finally:
        CP.yaml.safe_load, CP.Path = saved[0], saved[1]
        if saved[2] is None:
            del CP.open
        else:
            CP.open = saved[2]
    return a, a == b


_BASE = dict(dom_opt=False, modes0=4, modes1=6, halo_given=False, halo=5, ref_given=False, lv_given=False, lv=1, full_given=False, full=False,
             two_towers=False, lat=51, lon=12, zm=10, ustar_given=True, ustar=3, mol_given=False, mol=-40, ws_given=False, ws=4,
             wd_given=False, wd=200, z0_given=False, z0=1, solver_given=False, clo_given=False, prec_given=False, fp=False,
             shape_given=False, ana=False, src_given=False, out_given=False, par_given=False, nthreads=2, workers=3, use_cache=True)


def check_parse_domain(dom_opt: bool, modes0: int, modes1: int, halo_given: bool, halo: int, ref_given: bool, lv_given: bool, lv: int,
                       full_given: bool, full: bool, two_towers: bool, zm: int) -> bool:
    """
    post: _
    """
    lat, lon = 51, 12  # concrete: the coordinate transform itself is C17's subject
    kw = dict(_BASE, dom_opt=dom_opt, modes0=modes0, modes1=modes1, halo_given=halo_given, halo=halo, ref_given=ref_given, lv_given=lv_given,
              lv=lv, full_given=full_given, full=full, two_towers=two_towers, lat=lat, lon=lon, zm=zm)
    a, same = _roundtrip(_raw(**kw))
    d = a.domain
    ok = same and (d.nx, d.ny, d.xmax, d.ymax, d.nz) == (8, 6, 100.0, 50.0, 3)
    ok = ok and d.modes == ((modes0, modes1) if dom_opt else (512, 512)) and d.halo == (halo if halo_given else None)
    ok = ok and d.ref_lat == (50 if ref_given else None) and d.ref_lon == (11 if ref_given else None)
    ok = ok and d.output_levels == ([lv, lv + 1] if lv_given else None) and d.full_output == (full if full_given else False)
    ok = ok and len(a.towers) == (2 if two_towers else 1)
    t = a.towers[0]
    ok = ok and (t.name, t.lat, t.lon, t.z_m) == ("A", lat, lon, zm)
    ok = ok and ((t.x, t.y) == (latlon_to_xy(lat, lon, 50, 11) if ref_given else (0.0, 0.0)))
    if two_towers:
        t2 = a.towers[1]
        ok = ok and (t2.name, t2.lat, t2.lon, t2.z_m) == ("B", lon, lat, zm + 1)
        ok = ok and ((t2.x, t2.y) == (latlon_to_xy(lon, lat, 50, 11) if ref_given else (0.0, 0.0)))
    return ok


def check_parse_reference_origin(lat_zero: bool, lon_zero: bool, ref_int: bool, two_towers: bool, tower_at_origin: bool) -> bool:
    """
    post: _
    """
    # the reference origin may lie on the equator / the Greenwich meridian (0 or 0.0 are valid coordinates, not "absent"):
    # the towers' local coordinates - the measurement point of the single run - are still those of latlon_to_xy
    rl = (0 if ref_int else 0.0) if lat_zero else 50.95
    ro = (0 if ref_int else 0.0) if lon_zero else 11.586
    lat, lon = (rl, ro) if tower_at_origin else (rl + 0.002, ro + 0.003)
    raw = _raw(**dict(_BASE, two_towers=two_towers, lat=lat, lon=lon))
    raw["domain"]["ref_lat"] = rl
    raw["domain"]["ref_lon"] = ro
    a, same = _roundtrip(raw)
    t = a.towers[0]
    ok = same and (a.domain.ref_lat, a.domain.ref_lon) == (rl, ro)
    ok = ok and (t.x, t.y) == latlon_to_xy(lat, lon, rl, ro)
    if two_towers:
        t2 = a.towers[1]
        ok = ok and (t2.x, t2.y) == latlon_to_xy(lon, lat, rl, ro)
    return ok


def check_parse_met(ustar_given: bool, ustar: int, mol_given: bool, mol: int, ws_given: bool, ws: int, wd_given: bool, wd: int,
                    z0_given: bool, z0: int) -> bool:
    """
    pre: ustar_given or z0_given
    post: _
    """
    kw = dict(_BASE, ustar_given=ustar_given, ustar=ustar, mol_given=mol_given, mol=mol, ws_given=ws_given, ws=ws, wd_given=wd_given, wd=wd,
              z0_given=z0_given, z0=z0)
    a, same = _roundtrip(_raw(**kw))
    m = a.met
    return (same and m.ustar == (ustar if ustar_given else None) and m.mol == (mol if mol_given else 1e9)
            and m.wind_speed == (ws if ws_given else 5.0) and m.wind_dir == (wd if wd_given else 270.0)
            and m.z0 == (z0 if z0_given else None) and m.timestamps is None)


def check_parse_solver(solver_given: bool, clo_given: bool, prec_given: bool, fp: bool, shape_given: bool, ana: bool, src_given: bool,
                       out_given: bool, par_given: bool, nthreads: int, workers: int, use_cache: bool) -> bool:
    """
    post: _
    """
    kw = dict(_BASE, solver_given=solver_given, clo_given=clo_given, prec_given=prec_given, fp=fp, shape_given=shape_given, ana=ana,
              src_given=src_given, out_given=out_given, par_given=par_given, nthreads=nthreads, workers=workers, use_cache=use_cache)
    a, same = _roundtrip(_raw(**kw))
    s = a.solver
    if solver_given:
        ok = s == SolverConfig(closure="MOSTM" if clo_given else "MOST", precision="double" if prec_given else "single",
                               footprint=fp, surface_flux_shape="circle" if shape_given else "diamond", analytic=ana,
                               src_loc=(3, 4) if src_given else None)
    else:
        ok = s == SolverConfig(closure="MOST", precision="single", footprint=False, surface_flux_shape="diamond", analytic=False, src_loc=None)
    ok = ok and a.output == (OutputConfig(format="netcdf", directory="./o") if out_given else OutputConfig(format="netcdf", directory="./output"))
    ok = ok and a.parallel == (ParallelConfig(num_threads=nthreads, max_workers=workers, use_cache=use_cache) if par_given else ParallelConfig(1, 1, False))
    return same and ok


def twin_parse(dom_opt: bool, modes0: int, modes1: int, halo_given: bool, halo: int, ref_given: bool, lv_given: bool, lv: int,
               full_given: bool, full: bool, two_towers: bool, zm: int) -> bool:
    """
    post: _
    """
    check_parse_domain(dom_opt, modes0, modes1, halo_given, halo, ref_given, lv_given, lv, full_given, full, two_towers, zm)
    return False
