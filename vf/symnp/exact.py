"""Engine A, exact domain (kinds P and U): scalars are exact rationals or z3
real terms; complex numbers are pairs; transcendental functions of symbolic
arguments are *uninterpreted*: every application creates a fresh real variable
and a record, and before a query the engine adds functional consistency
(Ackermann) and instances of a fixed list of laws over the finite set of
recorded applications.  A property proved this way holds for every
interpretation of the functions that satisfies the listed laws - in particular
the true ones.  A sat answer may be an artefact of the abstraction and is never
reported without replay.

Python-level branching on a symbolic condition goes through the path explorer
(decide by the solver; fork when both sides are feasible; re-execute with the
decision prefix)."""
import itertools
import math
from fractions import Fraction

import numpy as np
import z3

# ---------------------------------------------------------------------------
# context


class PathCap(Exception):
    pass


class Ctx:
    """Assumptions, uninterpreted-function applications, path decisions."""

    def __init__(self):
        self.assume = []  # z3 BoolRefs (preconditions)
        self.side = []  # side conditions collected on the way (division by nonzero ...)
        self.apps = {}  # fn name -> list of (args tuple of z3 terms, value z3 var)
        self.nvars = 0
        self.pc = []  # path condition
        self.prefix = []
        self.pos = 0
        self.work = None
        self.feas_queries = 0
        self.pi = None

    # variables
    def real(self, name):
        return R(z3.Real(name))

    def fresh(self, stem):
        self.nvars += 1
        return z3.Real("%s!%d" % (stem, self.nvars))

    def PI(self):
        if self.pi is None:
            self.pi = z3.Real("pi")
            self.assume += [self.pi > z3.RealVal("3.14159265"), self.pi < z3.RealVal("3.14159266")]
        return R(self.pi)

    # uninterpreted functions
    def app(self, fn, *args):
        args = tuple(zt(a) for a in args)
        lst = self.apps.setdefault(fn, [])
        for a, v in lst:  # syntactic sharing
            if all(x.eq(y) for x, y in zip(a, args)):
                return R(v)
        v = self.fresh(fn)
        lst.append((args, v))
        return R(v)

    # path explorer ----------------------------------------------------------
    def feasible(self, extra, timeout=20000, full=False):
        s = z3.Solver()
        s.set("timeout", timeout)
        s.add(self.assume)
        s.add(self.side)
        s.add(self.pc)
        # path decisions use the cheap (linear-size) part of the axioms: an
        # over-approximation of feasibility; empty paths are filtered at the
        # end of the path with the full set
        s.add(axioms(self) if full else light_axioms(self))
        s.add(extra)
        self.feas_queries += 1
        r = s.check()
        if r == z3.unknown:
            raise PathCap("feasibility query unknown")
        return r == z3.sat

    def decide(self, cond):
        """Truth value of a symbolic condition on the current path."""
        if z3.is_true(cond):
            return True
        if z3.is_false(cond):
            return False
        if self.pos < len(self.prefix):
            v = self.prefix[self.pos]
        else:
            t = self.feasible(cond)
            f = self.feasible(z3.Not(cond))
            if t and f:
                v = True
                if self.work is not None:
                    self.work.append(self.prefix[: self.pos] + [False])
                self.prefix.append(True)
            else:
                v = t
                self.prefix.append(v)
        self.pos += 1
        self.pc.append(cond if v else z3.Not(cond))
        return v


CTX = [Ctx()]


def ctx():
    return CTX[0]


def new_ctx():
    CTX[0] = Ctx()
    return CTX[0]


def explore(fn, cap=64):
    """Run fn() once per feasible path.  fn is re-executed from the start for
    every path with the decision prefix; yields (result or exception, ctx).
    The caller must create its symbolic inputs inside fn (names are stable)."""
    work = [[]]
    paths = 0
    while work:
        if paths >= cap:
            raise PathCap("more than %d paths" % cap)
        prefix = work.pop()
        c = new_ctx()
        c.prefix = list(prefix)
        c.work = work
        paths += 1
        try:
            res = fn(c)
        except PathCap:
            raise
        yield res, c


# ---------------------------------------------------------------------------
# scalars

_NUM = (int, float, Fraction, np.integer, np.floating)


def _frac(v):
    if isinstance(v, Fraction):
        return v
    if isinstance(v, (int, np.integer)):
        return Fraction(int(v))
    if isinstance(v, (float, np.floating)):
        if not math.isfinite(float(v)):
            raise ValueError("non-finite literal in exact mode")
        return Fraction(float(v))
    raise TypeError(type(v))


def zt(x):
    """z3 term of a real scalar"""
    if isinstance(x, R):
        x = x.v
    if isinstance(x, z3.ExprRef):
        return x
    f = _frac(x)
    return z3.Q(f.numerator, f.denominator)


class B:
    """symbolic boolean"""

    def __init__(self, t):
        self.t = t

    def __bool__(self):
        return ctx().decide(self.t)

    def __and__(self, o):
        return B(z3.And(self.t, o.t if isinstance(o, B) else z3.BoolVal(bool(o))))

    def __or__(self, o):
        return B(z3.Or(self.t, o.t if isinstance(o, B) else z3.BoolVal(bool(o))))

    def __invert__(self):
        return B(z3.Not(self.t))

    __rand__ = __and__
    __ror__ = __or__


class R:
    """exact real: Fraction constant or z3 term"""

    __slots__ = ("v",)

    def __init__(self, v):
        if isinstance(v, R):
            v = v.v
        if not isinstance(v, z3.ExprRef):
            v = _frac(v)
        self.v = v

    def is_const(self):
        return isinstance(self.v, Fraction)

    # arithmetic
    def _co(self, o):
        if isinstance(o, R):
            return o
        if isinstance(o, _NUM):
            return R(o)
        return None

    def __add__(self, o):
        if isinstance(o, C):
            return C(self, R(0)) + o
        if isinstance(o, (complex, np.complexfloating)):
            return C(self, R(0)) + C.of(o)
        o = self._co(o)
        if o is None:
            return NotImplemented
        if self.is_const() and o.is_const():
            return R(self.v + o.v)
        if self.is_const() and self.v == 0:
            return o
        if o.is_const() and o.v == 0:
            return self
        return R(zt(self) + zt(o))

    __radd__ = __add__

    def __neg__(self):
        if self.is_const():
            return R(-self.v)
        return R(-self.v)

    def __pos__(self):
        return self

    def __sub__(self, o):
        if isinstance(o, (C, complex, np.complexfloating)):
            return C(self, R(0)) - (o if isinstance(o, C) else C.of(o))
        o = self._co(o)
        if o is None:
            return NotImplemented
        return self + (-o)

    def __rsub__(self, o):
        if isinstance(o, (complex, np.complexfloating)):
            return C.of(o) - C(self, R(0))
        o = self._co(o)
        if o is None:
            return NotImplemented
        return o + (-self)

    def __mul__(self, o):
        if isinstance(o, C):
            return C(self * o.re, self * o.im)
        if isinstance(o, (complex, np.complexfloating)):
            return C.of(o) * self
        o = self._co(o)
        if o is None:
            return NotImplemented
        if self.is_const() and o.is_const():
            return R(self.v * o.v)
        for a, b in ((self, o), (o, self)):
            if a.is_const():
                if a.v == 0:
                    return R(0)
                if a.v == 1:
                    return b
                if a.v == -1:
                    return -b
        return R(zt(self) * zt(o))

    __rmul__ = __mul__

    def __truediv__(self, o):
        if isinstance(o, C):
            return C(self, R(0)) / o
        if isinstance(o, (complex, np.complexfloating)):
            return C(self, R(0)) / C.of(o)
        o = self._co(o)
        if o is None:
            return NotImplemented
        if o.is_const():
            if o.v == 0:
                raise ZeroDivisionError("exact division by zero")
            return self * R(1 / o.v)
        c = ctx()
        nz = o.v != 0
        if not any(nz.eq(s) for s in c.side):
            c.side.append(nz)
        if self.is_const() and self.v == 0:
            return R(0)
        return R(zt(self) / o.v)

    def __rtruediv__(self, o):
        if isinstance(o, (complex, np.complexfloating)):
            return C.of(o) / C(self, R(0))
        o = self._co(o)
        if o is None:
            return NotImplemented
        return o / self

    def __pow__(self, k):
        if isinstance(k, R) and k.is_const():
            k = k.v
        if isinstance(k, (float, np.floating)) and float(k).is_integer():
            k = int(k)
        if isinstance(k, Fraction) and k.denominator == 1:
            k = int(k)
        if isinstance(k, (int, np.integer)):
            k = int(k)
            if k == 0:
                return R(1)
            if k < 0:
                return R(1) / (self ** (-k))
            out = self
            for _ in range(k - 1):
                out = out * self
            return out
        # general power: uninterpreted pow(base, exponent)
        return upow(self, k)

    def __rpow__(self, b):
        return upow(R(b), self)

    def __mod__(self, o):
        o = self._co(o)
        if o is None:
            return NotImplemented
        if self.is_const() and o.is_const():
            return R(self.v % o.v)
        # Python semantics for a positive modulus: x - m * floor(x / m)
        q = z3.ToReal(z3.ToInt(zt(self) / zt(o)))
        return R(zt(self) - zt(o) * q)

    def __floordiv__(self, o):
        o = self._co(o)
        if o is None:
            return NotImplemented
        if self.is_const() and o.is_const():
            return R(self.v // o.v)
        return R(z3.ToReal(z3.ToInt(zt(self) / zt(o))))

    # comparisons -> symbolic booleans (constants fold)
    def _cmp(self, o, op):
        o = self._co(o)
        if o is None:
            return NotImplemented
        if self.is_const() and o.is_const():
            return op(self.v, o.v)
        return B(op(zt(self), zt(o)))

    def __lt__(self, o):
        return self._cmp(o, lambda a, b: a < b)

    def __le__(self, o):
        return self._cmp(o, lambda a, b: a <= b)

    def __gt__(self, o):
        return self._cmp(o, lambda a, b: a > b)

    def __ge__(self, o):
        return self._cmp(o, lambda a, b: a >= b)

    def __eq__(self, o):
        return self._cmp(o, lambda a, b: a == b)

    def __ne__(self, o):
        return self._cmp(o, lambda a, b: a != b)

    def __hash__(self):
        return id(self)

    def __bool__(self):
        if self.is_const():
            return self.v != 0
        return ctx().decide(self.v != 0)

    def __abs__(self):
        if self.is_const():
            return R(abs(self.v))
        return R(z3.If(self.v >= 0, self.v, -self.v))

    def __float__(self):
        if self.is_const():
            return float(self.v)
        raise TypeError("symbolic real used as a float")

    def __int__(self):
        if self.is_const():
            return int(self.v)
        raise TypeError("symbolic real used as an int")

    def item(self):
        return self

    def __format__(self, spec):
        return "<%s>" % (self.v,)

    # numpy ufunc dispatch on object arrays
    def exp(self):
        return uexp(self)

    def log(self):
        return ulog(self)

    def sqrt(self):
        return usqrt(self)

    def sin(self):
        return usin(self)

    def cos(self):
        return ucos(self)

    def arctan(self):
        return uatan(self)

    def conjugate(self):
        return self

    conj = conjugate

    @property
    def real(self):
        return self

    @property
    def imag(self):
        return R(0)

    def __repr__(self):
        return "R(%s)" % (self.v,)


class RI(R):
    """an exact real that stands for an INTEGER-typed input (Python int / numpy
    integer scalar): arrays built from it have an integer dtype in numpy"""

    __slots__ = ()


class C:
    """exact complex number (pair of R)"""

    __slots__ = ("re", "im")

    def __init__(self, re, im=0):
        self.re = re if isinstance(re, R) else R(re)
        self.im = im if isinstance(im, R) else R(im)

    @staticmethod
    def of(o):
        if isinstance(o, C):
            return o
        if isinstance(o, R):
            return C(o, R(0))
        if isinstance(o, (complex, np.complexfloating)):
            return C(R(o.real), R(o.imag))
        if isinstance(o, _NUM):
            return C(R(o), R(0))
        return None

    def __add__(self, o):
        o = C.of(o)
        if o is None:
            return NotImplemented
        return C(self.re + o.re, self.im + o.im)

    __radd__ = __add__

    def __neg__(self):
        return C(-self.re, -self.im)

    def __sub__(self, o):
        o = C.of(o)
        if o is None:
            return NotImplemented
        return C(self.re - o.re, self.im - o.im)

    def __rsub__(self, o):
        o = C.of(o)
        if o is None:
            return NotImplemented
        return o - self

    def __mul__(self, o):
        o = C.of(o)
        if o is None:
            return NotImplemented
        return C(self.re * o.re - self.im * o.im, self.re * o.im + self.im * o.re)

    __rmul__ = __mul__

    def __truediv__(self, o):
        o = C.of(o)
        if o is None:
            return NotImplemented
        if o.im.is_const() and o.im.v == 0:
            return C(self.re / o.re, self.im / o.re)
        den = o.re * o.re + o.im * o.im
        num = self * C(o.re, -o.im)
        return C(num.re / den, num.im / den)

    def __rtruediv__(self, o):
        o = C.of(o)
        if o is None:
            return NotImplemented
        return o / self

    def __pow__(self, k):
        if isinstance(k, R) and k.is_const():
            k = k.v
        if isinstance(k, (float, np.floating, Fraction)) and Fraction(k).denominator == 1:
            k = int(k)
        if isinstance(k, (int, np.integer)):
            k = int(k)
            if k == 0:
                return C(1, 0)
            if k < 0:
                return C(1, 0) / (self ** (-k))
            out = self
            for _ in range(k - 1):
                out = out * self
            return out
        raise NotImplementedError("complex power with non-integer exponent")

    def sqrt(self):
        return csqrt(self)

    def exp(self):
        e = uexp(self.re)
        return C(e * ucos(self.im), e * usin(self.im))

    def conjugate(self):
        return C(self.re, -self.im)

    conj = conjugate

    @property
    def real(self):
        return self.re

    @property
    def imag(self):
        return self.im

    def __hash__(self):
        return id(self)

    def __repr__(self):
        return "C(%s, %s)" % (self.re.v, self.im.v)


def XQ(text):
    """exact value of a float literal given by its source text"""
    return R(Fraction(text))


def XJ(text):
    return C(R(0), R(Fraction(text)))


# ---------------------------------------------------------------------------
# uninterpreted functions


def _const_eq(x, val):
    return isinstance(x, R) and x.is_const() and x.v == val


def uexp(x):
    x = R(x)
    if _const_eq(x, 0):
        return R(1)
    return ctx().app("exp", x)


def ulog(x):
    x = R(x)
    if _const_eq(x, 1):
        return R(0)
    return ctx().app("log", x)


def usqrt(x):
    if isinstance(x, C):
        return csqrt(x)
    x = R(x)
    if x.is_const():
        if x.v >= 0:
            n, d = x.v.numerator, x.v.denominator
            rn, rd = math.isqrt(n), math.isqrt(d)
            if rn * rn == n and rd * rd == d:
                return R(Fraction(rn, rd))
    return ctx().app("sqrt", x)


def upow(b, e):
    b, e = R(b), R(e)
    if _const_eq(e, 1):
        return b
    if _const_eq(e, 0) or _const_eq(b, 1):
        return R(1)
    return ctx().app("pow", b, e)


def ugamma(x):
    return ctx().app("gamma", R(x))


def usin(x):
    x = R(x)
    if _const_eq(x, 0):
        return R(0)
    return ctx().app("sin", x)


def ucos(x):
    x = R(x)
    if _const_eq(x, 0):
        return R(1)
    return ctx().app("cos", x)


def uatan(x):
    x = R(x)
    if _const_eq(x, 0):
        return R(0)
    return ctx().app("atan", x)


def uatan2(y, x):
    return ctx().app("atan2", R(y), R(x))


def csqrt(zc):
    """principal complex square root: (er + i ei)^2 = a + i b, er >= 0"""
    zc = C.of(zc)
    c = ctx()
    er = c.app("csqrt_re", zc.re, zc.im)
    ei = c.app("csqrt_im", zc.re, zc.im)
    return C(er, ei)


def light_axioms(c):
    out = []
    A = c.apps
    for (a,), v in A.get("exp", []):
        out.append(v > 0)
    for (a,), v in A.get("sqrt", []):
        out.append(z3.Implies(a >= 0, z3.And(v >= 0, v * v == a)))
    for (b, e), v in A.get("pow", []):
        out.append(z3.Implies(b > 0, v > 0))
    for ((a1,), v1), ((a2,), v2) in itertools.combinations(A.get("exp", []), 2):
        out.append(z3.Implies(a1 < a2, v1 < v2))
        out.append(z3.Implies(a2 < a1, v2 < v1))
        out.append(z3.Implies(a1 == a2, v1 == v2))
    return out


CUBIC_CAP = 22  # families with more applications get no three-way law instances


def axioms(c, extra_pairs=True):
    """Instances of the listed laws over the recorded applications."""
    out = []
    A = c.apps

    def few(name):
        lst = A.get(name, [])
        return lst if len(lst) <= CUBIC_CAP else []

    def ack(lst):
        for (a1, v1), (a2, v2) in itertools.combinations(lst, 2):
            out.append(z3.Implies(z3.And([x == y for x, y in zip(a1, a2)]), v1 == v2))

    for fn, lst in A.items():
        ack(lst)
    for (a,), v in A.get("exp", []):
        out.append(v > 0)
    for ((a1,), v1), ((a2,), v2) in itertools.combinations(A.get("exp", []), 2):
        out.append(z3.Implies(a1 < a2, v1 < v2))
        out.append(z3.Implies(a2 < a1, v2 < v1))
    for (t,), v in A.get("exp", []):
        for (a,), w in A.get("log", []):
            out.append(z3.Implies(a == v, w == t))  # log(exp t) = t
            out.append(z3.Implies(a * v == 1, w == -t))  # log(1 / exp t) = -t
            out.append(z3.Implies(z3.And(a > 0, a <= v), w <= t))  # monotone against exp
            out.append(z3.Implies(z3.And(a > 0, a >= v), w >= t))
            out.append(z3.Implies(z3.And(a > 0, a < v), w < t))
            out.append(z3.Implies(z3.And(a > 0, a > v), w > t))
            out.append(z3.Implies(z3.And(a > 0, t == w), v == a))  # exp(log a) = a
    for ((a1,), v1), ((a2,), v2), ((a3,), v3) in itertools.permutations(few("exp"), 3):
        out.append(z3.Implies(a1 + a2 == a3, v1 * v2 == v3))
    for ((a1,), v1), ((a2,), v2) in itertools.permutations(A.get("exp", []), 2):
        out.append(z3.Implies(a1 + a2 == 0, v1 * v2 == 1))
    for ((a1,), v1), ((a2,), v2) in itertools.combinations(A.get("log", []), 2):
        out.append(z3.Implies(z3.And(a1 > 0, a2 > 0, a1 < a2), v1 < v2))
        out.append(z3.Implies(z3.And(a1 > 0, a2 > 0, a2 < a1), v2 < v1))
    for ((a1,), v1), ((a2,), v2), ((a3,), v3) in itertools.permutations(few("log"), 3):
        out.append(z3.Implies(z3.And(a1 > 0, a2 > 0, a1 * a2 == a3), v1 + v2 == v3))
    for (a,), v in A.get("log", []):
        out.append(z3.Implies(a == 1, v == 0))
        out.append(z3.Implies(a > 1, v > 0))
        out.append(z3.Implies(z3.And(a > 0, a < 1), v < 0))
    for (a,), v in A.get("sqrt", []):
        out.append(z3.Implies(a >= 0, z3.And(v >= 0, v * v == a)))
    for (b, e), v in A.get("pow", []):
        out.append(z3.Implies(b > 0, v > 0))
        out.append(z3.Implies(e == 1, v == b))
        out.append(z3.Implies(e == 0, v == 1))
        out.append(z3.Implies(b == 1, v == 1))
        out.append(z3.Implies(e == 2, v == b * b))
        out.append(z3.Implies(z3.And(e == -1, b != 0), v * b == 1))
        out.append(z3.Implies(z3.And(b > 0, 4 * e == 1), v * v * v * v == b))
        out.append(z3.Implies(z3.And(b > 0, 2 * e == 1), v * v == b))
        out.append(z3.Implies(z3.And(b > 0, 4 * e == -1), v * v * v * v * b == 1))
        out.append(z3.Implies(z3.And(b > 0, 2 * e == -1), v * v * b == 1))
    P = A.get("pow", [])
    for ((b1, e1), v1), ((b2, e2), v2), ((b3, e3), v3) in itertools.permutations(P if len(P) <= CUBIC_CAP else [], 3):
        out.append(z3.Implies(z3.And(b1 == b2, b2 == b3, b1 > 0, e1 + e2 == e3), v1 * v2 == v3))
    for ((b1, e1), v1), ((b2, e2), v2) in itertools.permutations(P, 2):
        out.append(z3.Implies(z3.And(b1 == b2, b1 > 0, 2 * e1 == e2), v1 * v1 == v2))
        out.append(z3.Implies(z3.And(b1 == b2, b1 > 0, e1 + e2 == 0), v1 * v2 == 1))
        out.append(z3.Implies(z3.And(b1 == b2, b1 > 0, e1 + e2 == 1), v1 * v2 == b1))
        out.append(z3.Implies(z3.And(b1 == b2, b1 > 0, e1 == e2 + 1), v1 == v2 * b1))
        out.append(z3.Implies(z3.And(b1 == b2, b1 > 0, e1 == 3 * e2), v1 == v2 * v2 * v2))
        out.append(z3.Implies(z3.And(b1 == b2, b1 > 0, e1 == -3 * e2), v1 * v2 * v2 * v2 == 1))
        out.append(z3.Implies(z3.And(b1 == b2, b1 > 0, e1 == -2 * e2), v1 * v2 * v2 == 1))
        # (b^e1) with b = c^k is not instantiated; same exponent, product of bases:
        out.append(z3.Implies(z3.And(e1 == e2, b1 > 0, b2 > 0, b1 * b2 == 1), v1 * v2 == 1))
    for (a,), v in A.get("gamma", []):
        out.append(z3.Implies(a > 0, v > 0))
    S, Cc = A.get("sin", []), A.get("cos", [])
    for (a,), v in S:
        out.append(z3.And(v >= -1, v <= 1))
        out.append(z3.Implies(a == 0, v == 0))
    for (a,), v in Cc:
        out.append(z3.And(v >= -1, v <= 1))
        out.append(z3.Implies(a == 0, v == 1))
    for (a1,), v1 in S:
        for (a2,), v2 in Cc:
            out.append(z3.Implies(a1 == a2, v1 * v1 + v2 * v2 == 1))
    if c.pi is not None:
        pi = c.pi
        for (a,), v in S:
            out.append(z3.Implies(a == pi / 2, v == 1))
            out.append(z3.Implies(a == pi, v == 0))
            out.append(z3.Implies(a == 3 * pi / 2, v == -1))
            out.append(z3.Implies(a == 2 * pi, v == 0))
            out.append(z3.Implies(a == -pi / 2, v == -1))
            out.append(z3.Implies(z3.And(a > 0, a < pi), v > 0))
            out.append(z3.Implies(z3.And(a > pi, a < 2 * pi), v < 0))
        for (a,), v in Cc:
            out.append(z3.Implies(a == pi / 2, v == 0))
            out.append(z3.Implies(a == pi, v == -1))
            out.append(z3.Implies(a == 3 * pi / 2, v == 0))
            out.append(z3.Implies(a == 2 * pi, v == 1))
            out.append(z3.Implies(a == -pi / 2, v == 0))
            out.append(z3.Implies(z3.And(a > -pi / 2, a < pi / 2), v > 0))
            out.append(z3.Implies(z3.And(a > pi / 2, a < 3 * pi / 2), v < 0))
            out.append(z3.Implies(z3.And(a > 3 * pi / 2, a < 5 * pi / 2), v > 0))
        # values at every multiple of pi/2 in [-2 pi, 2 pi]
        for mlt in range(-4, 5):
            sv = [0, 1, 0, -1][mlt % 4]
            cv = [1, 0, -1, 0][mlt % 4]
            for (a,), v in S:
                out.append(z3.Implies(2 * a == mlt * pi, v == sv))
            for (a,), v in Cc:
                out.append(z3.Implies(2 * a == mlt * pi, v == cv))
        # shifts by multiples of pi/2 between recorded applications
        for (a1,), v1 in S + Cc:
            pass
        for (a1,), s1 in S:
            for (a2,), s2 in S:
                out.append(z3.Implies(a2 == a1 + pi, s2 == -s1))
                out.append(z3.Implies(a2 == -a1, s2 == -s1))
                out.append(z3.Implies(a2 == a1 + 2 * pi, s2 == s1))
            for (a2,), c2 in Cc:
                out.append(z3.Implies(a2 == a1 - pi / 2, c2 == s1))  # cos(x - pi/2) = sin x
                out.append(z3.Implies(a2 == a1 + pi / 2, c2 == -s1))
                out.append(z3.Implies(a1 == a2 + pi / 2, s1 == c2))  # sin(x + pi/2) = cos x
                out.append(z3.Implies(a1 == a2 - pi / 2, s1 == -c2))
        for (a1,), c1 in Cc:
            for (a2,), c2 in Cc:
                out.append(z3.Implies(a2 == a1 + pi, c2 == -c1))
                out.append(z3.Implies(a2 == -a1, c2 == c1))
                out.append(z3.Implies(a2 == a1 + 2 * pi, c2 == c1))
        for (a,), v in A.get("atan", []):
            out.append(z3.And(v > -pi / 2, v < pi / 2))
            out.append(z3.Implies(a == 1, v == pi / 4))
            out.append(z3.Implies(a == 0, v == 0))
            out.append(z3.Implies(a > 0, v > 0))
        for (y, x), v in A.get("atan2", []):
            out.append(z3.And(v > -pi, v <= pi))
            # rho cos(atan2(y, x)) = x and rho sin(atan2(y, x)) = y with rho = sqrt(x^2 + y^2)
            for (a,), r in A.get("sqrt", []):
                for (a1,), s1 in S:
                    out.append(z3.Implies(z3.And(a == x * x + y * y, a1 == v), r * s1 == y))
                for (a2,), c2 in Cc:
                    out.append(z3.Implies(z3.And(a == x * x + y * y, a2 == v), r * c2 == x))
            for (a1,), s1 in S:
                for (a2,), c2 in Cc:
                    # rho cos(atan2(y, x)) = x, rho sin(atan2(y, x)) = y with rho^2 = x^2 + y^2
                    out.append(z3.Implies(z3.And(a1 == v, a2 == v), z3.And(s1 * x == c2 * y, z3.Implies(x > 0, c2 > 0), z3.Implies(x < 0, c2 < 0), z3.Implies(y > 0, s1 > 0), z3.Implies(y < 0, s1 < 0))))
    else:
        for (a,), v in A.get("atan", []):
            out.append(z3.Implies(a == 0, v == 0))
    # principal complex square root
    res, ims = A.get("csqrt_re", []), A.get("csqrt_im", [])
    for ((a, b), er), ((a2, b2), ei) in zip(res, ims):
        out.append(er * er - ei * ei == a)
        out.append(2 * er * ei == b)
        out.append(er >= 0)
        out.append(z3.Implies(z3.And(er == 0, b == 0), ei >= 0))
    return out


# ---------------------------------------------------------------------------
# arrays / numpy shim


def _concrete_key(key):
    """object arrays of symbolic booleans used as masks are decided element by
    element on the current path (the path explorer forks where both outcomes
    are feasible), then numpy does the indexing"""
    if isinstance(key, np.ndarray) and key.dtype == object and all(isinstance(e, (B, bool, np.bool_)) for e in key.ravel()):
        out = np.zeros(key.shape, bool)
        for idx in np.ndindex(key.shape):
            out[idx] = bool(key[idx])
        return out
    if isinstance(key, tuple):
        return tuple(_concrete_key(k) for k in key)
    return key


def _trunc(v):
    """numpy's float -> integer cast (truncation toward zero) of an exact real"""
    v = R(v)
    if v.is_const():
        return R(int(v.v))
    t = zt(v)
    fl = z3.ToReal(z3.ToInt(t))
    return R(z3.If(t >= 0, fl, -z3.ToReal(z3.ToInt(-t))))


class MaskSel:
    """lazy result of indexing a 1-D array with a SYMBOLIC boolean mask (used when
    ctx().lazy_masks is set): the full value list travels with the mask, arithmetic
    is element-wise, and storing it back under the same mask is an if-then-else"""

    def __init__(self, vals, mask):
        self.vals = list(vals)
        self.mask = list(mask)

    def _bin(self, o, f):
        if isinstance(o, MaskSel):
            return MaskSel([f(a, b) for a, b in zip(self.vals, o.vals)], self.mask)
        return MaskSel([f(a, o) for a in self.vals], self.mask)

    def __add__(self, o):
        return self._bin(o, lambda a, b: a + b)

    __radd__ = __add__

    def __sub__(self, o):
        return self._bin(o, lambda a, b: a - b)

    def __rsub__(self, o):
        return self._bin(o, lambda a, b: b - a)

    def __mul__(self, o):
        return self._bin(o, lambda a, b: a * b)

    __rmul__ = __mul__

    def __truediv__(self, o):
        return self._bin(o, lambda a, b: a / b)

    def __rtruediv__(self, o):
        return self._bin(o, lambda a, b: b / a)

    def __pow__(self, o):
        return self._bin(o, lambda a, b: a ** b)

    def __neg__(self):
        return MaskSel([-a for a in self.vals], self.mask)


def _symbolic_mask(key):
    return isinstance(key, np.ndarray) and key.dtype == object and key.ndim == 1 and any(isinstance(e, B) for e in key.ravel())


def _bt(e):
    return e.t if isinstance(e, B) else z3.BoolVal(bool(e))


class XArr(np.ndarray):
    """object ndarray of R / C; ikind marks arrays that numpy would hold as an
    integer dtype (values stored into them are truncated, as numpy casts)"""

    ikind = False

    def __array_finalize__(self, obj):
        # views / reshapes / index copies keep the (integer) kind; results of arithmetic do not (see __array_wrap__)
        self.ikind = bool(getattr(obj, "ikind", False))

    def __getitem__(self, key):
        if getattr(ctx(), "lazy_masks", False) and _symbolic_mask(key) and self.ndim == 1:
            return MaskSel([np.ndarray.__getitem__(self, i) for i in range(self.shape[0])], list(key))
        r = np.ndarray.__getitem__(self, _concrete_key(key))
        return r

    def __setitem__(self, key, val):
        if getattr(ctx(), "lazy_masks", False) and _symbolic_mask(key) and self.ndim == 1:
            c_ = ctx()
            c_.__dict__.setdefault("masked_stores", []).append((list(key), val))
            for i in range(self.shape[0]):
                new = val.vals[i] if isinstance(val, MaskSel) else val
                old = np.ndarray.__getitem__(self, i)
                np.ndarray.__setitem__(self, i, ite(key[i] if isinstance(key[i], B) else bool(key[i]), new, old))
            return
        if self.ikind:
            c_ = ctx()
            c_.truncations = getattr(c_, "truncations", 0) + 1
            if isinstance(val, np.ndarray):
                v2 = np.empty(val.shape, dtype=object)
                for idx in np.ndindex(val.shape):
                    v2[idx] = _trunc(val[idx])
                val = v2
            else:
                val = _trunc(val)
        np.ndarray.__setitem__(self, _concrete_key(key), val)

    def copy(self, *a, **k):
        out = np.array(np.asarray(self, dtype=object), dtype=object, copy=True).view(XArr)
        out.ikind = self.ikind
        return out

    # comparisons give object arrays of symbolic booleans (numpy would truth-test every element)
    def _cmp(self, o, op):
        import operator

        f = np.frompyfunc(getattr(operator, op), 2, 1)
        r = f(np.asarray(self, dtype=object), o if not isinstance(o, XArr) else np.asarray(o, dtype=object))
        return r if isinstance(r, np.ndarray) else r

    def __gt__(self, o):
        return self._cmp(o, "gt")

    def __ge__(self, o):
        return self._cmp(o, "ge")

    def __lt__(self, o):
        return self._cmp(o, "lt")

    def __le__(self, o):
        return self._cmp(o, "le")

    def __array_wrap__(self, arr, context=None, return_scalar=False):
        if arr.ndim == 0:
            return arr[()]
        out = arr.view(type(self))
        out.ikind = False
        return out

    @property
    def real(self):
        out = np.empty(self.shape, dtype=object)
        for idx in np.ndindex(self.shape):
            e = np.ndarray.__getitem__(self, idx)
            out[idx] = e.real if isinstance(e, (R, C)) else R(getattr(e, "real", e))
        return out.view(XArr)

    @property
    def imag(self):
        out = np.empty(self.shape, dtype=object)
        for idx in np.ndindex(self.shape):
            e = np.ndarray.__getitem__(self, idx)
            out[idx] = e.imag if isinstance(e, (R, C)) else R(getattr(e, "imag", 0))
        return out.view(XArr)


def xarr(values):
    a = np.empty(np.shape(values), dtype=object)
    for idx in np.ndindex(a.shape):
        v = values[idx] if isinstance(values, np.ndarray) else np.asarray(values, dtype=object)[idx]
        a[idx] = v if isinstance(v, (R, C)) else (C.of(v) if isinstance(v, complex) else R(v))
    return a.view(XArr)


def xvec(names):
    return xarr([ctx().real(n) for n in names])


def _ufunc(method, fallback):
    def call(e):
        if isinstance(e, (R, C)) or hasattr(e, "is_dual"):
            return getattr(e, method)()
        if isinstance(e, complex):
            return getattr(C.of(e), method)()
        return getattr(R(e), method)()

    f = np.frompyfunc(call, 1, 1)

    def wrapped(x, *a, **k):
        if isinstance(x, np.ndarray) and x.dtype == object:
            return f(x).view(XArr)
        if isinstance(x, (R, C)) or hasattr(x, "is_dual"):
            return call(x)
        if isinstance(x, np.ndarray):
            return f(x.astype(object)).view(XArr)
        return call(x)

    return wrapped


class XNP:
    """numpy stand-in for exact mode"""

    complex128 = np.complex128
    complex64 = np.complex64

    def __init__(self):
        self.exp = _ufunc("exp", None)
        self.log = _ufunc("log", None)
        self.sqrt = _ufunc("sqrt", None)
        self.sin = _ufunc("sin", None)
        self.cos = _ufunc("cos", None)
        self.arctan = _ufunc("arctan", None)

    def __getattr__(self, n):
        return getattr(np, n)

    @property
    def pi(self):
        return ctx().PI()

    @property
    def nan(self):
        # a NaN placed in a never-selected np.where branch: an unconstrained real
        # (sound as long as the result does not depend on it, which the query establishes)
        return R(ctx().fresh("nan"))

    ARANGE_CAP = 24

    def arange(self, start, stop=None, step=1, **k):
        if stop is None:
            start, stop = 0, start
        if not any(isinstance(a, R) and not a.is_const() for a in (start, stop, step)):
            return np.arange(float(R(start).v), float(R(stop).v), float(R(step).v))
        # length split over the admissible values by the path explorer
        start, stop, step = R(start), R(stop), R(step)
        vals = []
        kk = 0
        up = bool(step > 0)  # decided (or forked) once
        while True:
            v = start + step * kk
            if not ((v < stop) if up else (v > stop)):
                break
            vals.append(v)
            kk += 1
            if kk >= XNP.ARANGE_CAP:
                # bound of the exploration: longer ranges are cut (recorded as a cap hit)
                c = ctx()
                nxt = start + step * kk
                c.pc.append(z3.Not(zt(nxt) < zt(stop)) if up else z3.Not(zt(nxt) > zt(stop)))
                c.cap_hits = getattr(c, "cap_hits", 0) + 1
                break
        return xarr(vals) if vals else np.zeros(0)

    def _minmax(self, a, b, take_min):
        a_, b_ = np.broadcast_arrays(np.asarray(a, dtype=object), np.asarray(b, dtype=object))
        out = np.empty(a_.shape, dtype=object)
        for idx in np.ndindex(a_.shape):
            x, y = a_[idx], b_[idx]
            x = x if isinstance(x, R) or hasattr(x, "is_dual") else R(x)
            y = y if isinstance(y, R) or hasattr(y, "is_dual") else R(y)
            cnd = (x < y) if take_min else (x > y)
            out[idx] = ite(cnd, x, y)
        return out.view(XArr) if out.ndim else out[()]

    def minimum(self, a, b):
        return self._minmax(a, b, True)

    def maximum(self, a, b):
        return self._minmax(a, b, False)

    def clip(self, a, lo, hi, **k):
        x = a
        if lo is not None:
            x = self._minmax(x, lo, False)
        if hi is not None:
            x = self._minmax(x, hi, True)
        return x

    def logical_and(self, a, b):
        a_, b_ = np.broadcast_arrays(np.asarray(a, dtype=object), np.asarray(b, dtype=object))
        out = np.empty(a_.shape, dtype=object)
        for idx in np.ndindex(a_.shape):
            x, y = a_[idx], b_[idx]
            out[idx] = (x & y) if isinstance(x, B) or isinstance(y, B) else bool(x) and bool(y)
        return out

    def squeeze(self, a, *args, **k):
        if isinstance(a, (R, C)):
            o = np.empty((), dtype=object)
            o[()] = a
            return o.view(XArr)
        return np.squeeze(a, *args, **k)

    def _filled(self, shape, v, dtype):
        if isinstance(shape, (int, np.integer)):
            shape = (shape,)
        out = np.empty(tuple(shape), dtype=object)
        try:
            kind = np.dtype(dtype).kind if dtype is not None else "f"
        except TypeError:
            kind = "f"  # e.g. the shadowed builtin float
        for idx in np.ndindex(out.shape):
            out[idx] = C(v, 0) if kind == "c" else R(v)
        return out.view(XArr)

    def zeros(self, shape, dtype=float, **k):
        if dtype is bool or (dtype is not None and np.dtype(dtype).kind in "biu"):
            return np.zeros(shape, dtype=dtype)
        return self._filled(shape, 0, dtype)

    def ones(self, shape, dtype=float, **k):
        if dtype is bool or (dtype is not None and np.dtype(dtype).kind in "biu"):
            return np.ones(shape, dtype=dtype)
        return self._filled(shape, 1, dtype)

    def zeros_like(self, a, dtype=None, **k):
        out = self._filled(np.shape(a), 0, dtype or float)
        if dtype is None and getattr(a, "ikind", False):
            out.ikind = True  # inherits the integer dtype, as numpy does
        return out

    def nanmedian(self, a, *args, **k):
        if isinstance(a, MaskSel):
            tok = R(ctx().fresh("median"))
            ctx().__dict__.setdefault("median_selections", []).append((a.mask, a.vals, tok))
            return tok
        # median of a (symbolic) selection: an uninterpreted function of the selected entries
        vals = [zt(e) for e in np.ravel(np.asarray(a, dtype=object))]
        if not vals:
            return R(ctx().fresh("nan"))
        key = tuple(sorted(str(v) for v in vals))
        reg = ctx().__dict__.setdefault("medians", {})
        if key not in reg:
            reg[key] = ctx().fresh("median")
        return R(reg[key])

    def copy(self, a, *args, **k):
        if isinstance(a, np.ndarray) and a.dtype == object:
            return np.array(a, dtype=object, copy=True).view(XArr)
        return np.copy(a, *args, **k)

    def asarray(self, a, *args, **k):
        if isinstance(a, np.ndarray):
            return a
        if isinstance(a, (R, C)):
            o = np.empty((), dtype=object)
            o[()] = a
            return o.view(XArr)
        if isinstance(a, (list, tuple)) and any(isinstance(e, (R, C)) for e in a):
            out = xarr(list(a))
            if all(isinstance(e, RI) or isinstance(e, (int, np.integer)) for e in a):
                out.ikind = True
            return out
        return np.asarray(a, *args, **k)

    array = asarray

    def deg2rad(self, x):
        return x * (ctx().PI() / 180)

    def radians(self, x):
        return x * (ctx().PI() / 180)

    def degrees(self, x):
        return x * (180 / ctx().PI())

    def where(self, cond, a, b):
        cond = np.asarray(cond, dtype=object) if not isinstance(cond, np.ndarray) else cond
        a_, b_ = np.broadcast_arrays(np.asarray(a, dtype=object), np.asarray(b, dtype=object))[:2]
        c_, a_, b_ = np.broadcast_arrays(cond, a_, b_)
        out = np.empty(c_.shape, dtype=object)
        for idx in np.ndindex(c_.shape):
            out[idx] = ite(c_[idx], a_[idx], b_[idx])
        return out.view(XArr) if out.ndim else out[()]

    def power(self, b, e, dtype=None):
        if isinstance(b, np.ndarray):
            out = np.empty(b.shape, dtype=object)
            for idx in np.ndindex(b.shape):
                out[idx] = self.power(b[idx], e, dtype)
            return out.view(XArr)
        if hasattr(b, "is_dual"):
            r = b ** e
            return r
        r = upow(b, e)
        if dtype is complex or (dtype is not None and np.dtype(dtype).kind == "c"):
            # complex principal power of a real base; for base > 0 it is real
            return C(r, 0)
        return r

    def abs(self, x):
        if isinstance(x, np.ndarray):
            out = np.empty(x.shape, dtype=object)
            for idx in np.ndindex(x.shape):
                out[idx] = abs(x[idx]) if isinstance(x[idx], R) else abs(R(x[idx]))
            return out.view(XArr)
        return abs(x)

    def arctan2(self, y, x):
        y_, x_ = np.broadcast_arrays(np.asarray(y, dtype=object), np.asarray(x, dtype=object))
        out = np.empty(y_.shape, dtype=object)
        for idx in np.ndindex(y_.shape):
            out[idx] = uatan2(y_[idx], x_[idx])
        return out.view(XArr) if out.ndim else out[()]


def ite(c, a, b):
    if isinstance(c, (bool, np.bool_)):
        return a if c else b
    if hasattr(a, "is_dual") or hasattr(b, "is_dual"):
        return type(a if hasattr(a, "is_dual") else b).ite(c, a, b)
    if isinstance(c, B):
        if isinstance(a, C) or isinstance(b, C):
            a, b = C.of(a), C.of(b)
            return C(ite(c, a.re, b.re), ite(c, a.im, b.im))
        return R(z3.If(c.t, zt(a), zt(b)))
    raise TypeError("condition %r" % (c,))


def dft2_exact(x, inverse, norm):
    """exact DFT over the last two axes for sizes in {1, 2, 4} (roots of unity
    in Q(i)), numpy norm conventions"""
    x = np.asarray(x, dtype=object)
    ny, nx = x.shape[-2:]
    for n in (ny, nx):
        if n not in (1, 2, 4):
            raise NotImplementedError("exact DFT only for sizes 1, 2, 4")
    sign = 1 if inverse else -1

    def w(n, k):
        # exp(sign * 2 pi i k / n)
        k = (k * (4 // n)) % 4
        return [C(1, 0), C(0, sign), C(-1, 0), C(0, -sign)][k]

    if inverse:
        scale = Fraction(1) if norm == "forward" else Fraction(1, nx * ny)
    else:
        scale = Fraction(1, nx * ny) if norm == "forward" else Fraction(1)
    out = np.empty(x.shape, dtype=object)
    lead = x.shape[:-2]
    for li in np.ndindex(lead) if lead else [()]:
        blk = x[li]
        tmp = np.empty((ny, nx), dtype=object)
        for a in range(ny):
            for b in range(nx):
                acc = C(0, 0)
                for c_ in range(nx):
                    acc = acc + C.of(blk[a, c_]) * w(nx, b * c_)
                tmp[a, b] = acc
        for a in range(ny):
            for b in range(nx):
                acc = C(0, 0)
                for c_ in range(ny):
                    acc = acc + tmp[c_, b] * w(ny, a * c_)
                out[li + (a, b)] = acc * R(scale)
    return out.view(XArr)


class XMath:
    """math module stand-in"""

    def __getattr__(self, n):
        return getattr(math, n)

    @property
    def pi(self):
        return ctx().PI()

    def radians(self, x):
        return x * (ctx().PI() / 180)

    def degrees(self, x):
        return x * (180 / ctx().PI())

    def cos(self, x):
        return ucos(x)

    def sin(self, x):
        return usin(x)

    def exp(self, x):
        return uexp(x)

    def log(self, x):
        return ulog(x)

    def sqrt(self, x):
        return usqrt(x)


class XSpecial:
    def gamma(self, x):
        return ugamma(x)


def xfloat(x):
    if isinstance(x, (R, C)):
        return x
    return float(x)


def exact_env(extra_modules=None, fft=None):
    """Loader environment for exact mode."""
    from . import stubs

    xnp = XNP()
    mods = {
        "numpy": xnp,
        "math": XMath(),
        "scipy": type("m", (), {"special": XSpecial()})(),
        "scipy.special": XSpecial(),
        "numba": stubs.numba_stub(),
        "atexit": stubs.atexit_stub(),
        "pathlib": stubs.pathlib_nofile(),
    }
    if fft is not None:
        pf = stubs.pyfftw_stub(lambda x, norm: fft(x, False, norm), lambda x, norm: fft(x, True, norm))
        mods.update({"pyfftw": pf, "pyfftw.interfaces": pf.interfaces, "pyfftw.interfaces.numpy_fft": pf.interfaces.numpy_fft,
                     "pyfftw.interfaces.cache": pf.interfaces.cache})
    if extra_modules:
        mods.update(extra_modules)
    return {"modules": mods, "exact": True, "builtins": {"_XQ": XQ, "_XJ": XJ, "float": xfloat}}


# ---------------------------------------------------------------------------
# queries


def solver_for(c, timeout_ms=60000, with_axioms=True):
    s = z3.Solver()
    s.set("timeout", timeout_ms)
    s.add(c.assume)
    s.add(c.side)
    s.add(c.pc)
    if with_axioms:
        s.add(axioms(c))
    return s


def check_lazy(c, bad, per=30, budget_s=120, per_check_ms=20000):
    """Lazy instantiation of the law instances: start from the linear-size subset, add the instances the
    current model violates (at most `per` per round) and ask again.  `unsat` with a subset of the axioms is
    `unsat` with all of them; `sat` is returned only for a model that satisfies EVERY instance, i.e. it means
    what the full query's `sat` means.  -> (result, solver)"""
    import time as _t

    t0 = _t.time()
    all_ax = list(axioms(c))
    s = z3.Solver()
    s.set("timeout", per_check_ms)
    s.add(c.assume)
    s.add(c.side)
    s.add(c.pc)
    s.add(light_axioms(c))
    s.add(z3.Or(bad))
    while _t.time() - t0 < budget_s:
        r = str(s.check())
        if r != "sat":
            return r, s
        m = s.model()
        viol = []
        for a in all_ax:
            if z3.is_false(m.eval(a, model_completion=True)):
                viol.append(a)
                if len(viol) >= per:
                    break
        if not viol:
            return "sat", s
        s.add(viol)
    return "unknown", s


def neq(a, b):
    """z3 condition: the two exact scalars differ"""
    if isinstance(a, C) or isinstance(b, C):
        a, b = C.of(a), C.of(b)
        return z3.Or(zt(a.re) != zt(b.re), zt(a.im) != zt(b.im))
    return zt(a) != zt(b)


# ---------------------------------------------------------------------------
# truncated power series in formal layer thicknesses (for consistency orders)


class PS:
    """truncated multivariate power series sum c_m eps^m, |m| <= deg, with exact
    complex coefficients; m is a tuple of exponents"""

    DEG = 2

    def __init__(self, d, nv):
        self.d = {m: c for m, c in d.items() if sum(m) <= PS.DEG}
        self.nv = nv

    @staticmethod
    def var(i, nv):
        m = tuple(1 if k == i else 0 for k in range(nv))
        return PS({m: C(1, 0)}, nv)

    @staticmethod
    def const(v, nv):
        return PS({(0,) * nv: C.of(v)}, nv)

    def coeff(self, m):
        return self.d.get(tuple(m), C(0, 0))

    def _co(self, o):
        if isinstance(o, PS):
            return o
        c = C.of(o)
        if c is None:
            return None
        return PS.const(c, self.nv)

    def __add__(self, o):
        o = self._co(o)
        if o is None:
            return NotImplemented
        d = dict(self.d)
        for m, c in o.d.items():
            d[m] = d[m] + c if m in d else c
        return PS(d, self.nv)

    __radd__ = __add__

    def __neg__(self):
        return PS({m: -c for m, c in self.d.items()}, self.nv)

    def __sub__(self, o):
        o = self._co(o)
        if o is None:
            return NotImplemented
        return self + (-o)

    def __rsub__(self, o):
        o = self._co(o)
        if o is None:
            return NotImplemented
        return o + (-self)

    def __mul__(self, o):
        o = self._co(o)
        if o is None:
            return NotImplemented
        d = {}
        for m1, c1 in self.d.items():
            for m2, c2 in o.d.items():
                m = tuple(a + b for a, b in zip(m1, m2))
                if sum(m) > PS.DEG:
                    continue
                d[m] = d[m] + c1 * c2 if m in d else c1 * c2
        return PS(d, self.nv)

    __rmul__ = __mul__

    def __truediv__(self, o):
        c = C.of(o)
        if c is None:
            return NotImplemented
        return PS({m: v / c for m, v in self.d.items()}, self.nv)

    def __pow__(self, k):
        k = int(k)
        out = PS.const(1, self.nv)
        for _ in range(k):
            out = out * self
        return out

    def conjugate(self):
        return PS({m: c.conjugate() for m, c in self.d.items()}, self.nv)
