"""C04 - concentration and flux are linear in (surface flux, background).

Kind L.  The solver runs on affine forms in the entries of the source field and
the background.  A run that stays affine with a zero constant term IS a linear
map; so the obligations are: (i) the run stays affine (a product / branch /
division on data raises NonAffine and is replayed as a linearity violation),
(ii) zero constant term in every cell and level, (iii) the flux has no
dependence on the background, (iv) conc(q, bg) - conc(q, 0) == bg everywhere,
(v) in footprint mode the result is independent of the values of the source
array.  Numerical and analytic mode."""
import functools

import numpy as np

from ..symnp import affine as af
from ..symnp import kindl

PID = "C04"


def body(run, sym, sc):
    sp = sym.sp
    ny, nx = sc["ny"], sc["nx"]
    q = sym.field((ny, nx))
    bg = sym.var("bg")
    analytic = sc.get("analytic", False)
    kw = dict(analytic=analytic)
    try:
        g, c, f = kindl.sym_solve(sym, sc, q, srf_bg_conc=bg, **kw)
    except af.NonAffine as e:
        run.queries["sat"] += 1
        run.ob("stays_affine")["queries"] += 1
        run.ob("stays_affine")["sat"] += 1
        run.cex.append(dict(scenario=dict(sc), obligation="stays_affine", why=str(e)))
        return
    c, f = kindl.lv3(c, sc), kindl.lv3(f, sc)
    g, c0, f0 = kindl.sym_solve(sym, sc, q, srf_bg_conc=0.0, **kw)
    c0, f0 = kindl.lv3(c0, sc), kindl.lv3(f0, sc)
    scn = dict(sc)

    def rec(name, vals):
        if vals is not None:
            run.cex.append(dict(scenario=scn, obligation=name, q=kindl.field_from_model(vals, (ny, nx)).tolist(), bg=vals.get("bg", 0.0)))

    # (ii) homogeneous: the forms without their constant term are the forms
    for name, arr in (("conc_zero_constant_term", c), ("flux_zero_constant_term", f)):
        C = af.coeffs(arr, sp).copy()
        C[..., 0] = 0.0
        rec(name, kindl.forms_equal(run, sp, arr, af.from_coeffs(C, sp), name, scn))
    # (iii) flux independent of the background
    rec("flux_independent_of_background", kindl.forms_equal(run, sp, f, f0, "flux_independent_of_background", scn))
    # (iv) background is a uniform offset of exactly bg
    off = np.empty(c.shape, dtype=object)
    for idx in np.ndindex(c.shape):
        off[idx] = c0[idx] + bg
    rec("background_uniform_offset", kindl.forms_equal(run, sp, c, off, "background_uniform_offset", scn))
    # (v) footprint mode does not depend on the values of the source array
    g, cf, ff = kindl.sym_solve(sym, sc, q, footprint=True, meas_pt=(sc["dx"], sc["dy"]), **kw)
    g, cz, fz = kindl.sym_solve(sym, sc, np.zeros((ny, nx)), footprint=True, meas_pt=(sc["dx"], sc["dy"]), **kw)
    for name, a, b in (("footprint_independent_of_source_values", ff, fz), ("conc_greens_independent_of_source_values", cf, cz)):
        rec(name, kindl.forms_equal(run, sp, kindl.lv3(a, sc), kindl.lv3(b, sc), name, scn))
    run.sample(dict(scenario=sc, variables=sp.dim - 1), cap=3)


worker = functools.partial(kindl.guarded_worker, PID, body)


def replay(rec):
    sc = rec["scenario"]
    ob = rec["obligation"]
    ny, nx = sc["ny"], sc["nx"]
    tol = kindl.REPLAY_TOL[sc["precision"]]
    rng = np.random.default_rng(11)
    kw = dict(analytic=sc.get("analytic", False))
    q1 = np.array(rec["q"], float) if "q" in rec else rng.standard_normal((ny, nx))
    q2 = rng.standard_normal((ny, nx))
    c1, c2 = float(rec.get("bg", 0.4)) or 0.4, -1.3
    a, b = 1.7, -0.6
    worst = 0.0
    out = {"obligation": ob}
    if "footprint" in ob or "greens" in ob:
        r1 = kindl.real_solve(sc, q1, footprint=True, meas_pt=(sc["dx"], sc["dy"]), **kw)
        r2 = kindl.real_solve(sc, q2 * 3 - 1, footprint=True, meas_pt=(sc["dx"], sc["dy"]), **kw)
        worst = max(kindl.rel_err(r1[1], r2[1]), kindl.rel_err(r1[2], r2[2]))
    else:
        # special sources a data-dependent branch may single out: zero net flux, identically zero
        qd = np.zeros((ny, nx))
        qd.flat[0], qd.flat[-1] = 1.0, -1.0  # net flux exactly zero
        # ... exactly uniform (a 'nothing to resolve' shortcut), a uniform field split in two halves
        qu = np.full((ny, nx), 1.75)
        qh = np.zeros((ny, nx))
        qh[:, : max(1, nx // 2)] = 1.75
        for qs in (q1 - q1.mean(), np.zeros((ny, nx)), qd, qu, qh, qu - qh):
            g, cz0, fz0 = kindl.real_solve(sc, qs, srf_bg_conc=0.0, **kw)
            g, cz1, fz1 = kindl.real_solve(sc, qs, srf_bg_conc=c1, **kw)
            worst = max(worst, float(np.abs((np.asarray(cz1) - np.asarray(cz0)) - c1).max()) / abs(c1), kindl.rel_err(fz1, fz0) if np.abs(fz0).max() > 0 else float(np.abs(fz1).max()))
            g, cs, fs = kindl.real_solve(sc, qs + q2, srf_bg_conc=c1 + c2, **kw)
            g, cb_, fb_ = kindl.real_solve(sc, q2, srf_bg_conc=c2, **kw)
            worst = max(worst, kindl.rel_err(cs, np.asarray(cz1) + np.asarray(cb_)), kindl.rel_err(fs, np.asarray(fz1) + np.asarray(fb_)))
        g, ca, fa = kindl.real_solve(sc, q1, srf_bg_conc=c1, **kw)
        g, cb, fb = kindl.real_solve(sc, q2, srf_bg_conc=c2, **kw)
        g, cc, fc = kindl.real_solve(sc, a * q1 + b * q2, srf_bg_conc=a * c1 + b * c2, **kw)
        worst = max(worst, kindl.rel_err(cc, a * ca + b * cb), kindl.rel_err(fc, a * fa + b * fb))
        # homogeneity across magnitudes: a threshold / clean-up / clipping on the data is only visible far from order one
        for s_ in (1e-14, -1e-11, 1e-7, 1e9):
            g, cs_, fs_ = kindl.real_solve(sc, s_ * q1, srf_bg_conc=s_ * c1, **kw)
            worst = max(worst, kindl.rel_err(np.asarray(cs_) / s_, ca), kindl.rel_err(np.asarray(fs_) / s_, fa))
        g, c0, f0 = kindl.real_solve(sc, q1, srf_bg_conc=0.0, **kw)
        worst = max(worst, kindl.rel_err(fa, f0), float(np.abs((ca - c0) - c1).max()) / max(abs(c1), np.abs(c0).max(), 1e-300))
    out.update(max_rel_discrepancy=worst, tolerance=tol, confirmed=bool(worst > tol))
    return out


CANARIES = [
    ("background_in_all_modes", {"solver": [("tfftp[:, msk] = alpha * tfftpm1 + tfftpm2", "tfftp[:, msk] = alpha * tfftpm1 + tfftpm2 + 1e-3 * p000")]}),
    ("clip_negative_source", {"solver": [("    q0 = srf_flx\n", "    q0 = np.where(srf_flx > 0, srf_flx, 0.0)\n")]}),
    ("background_into_flux", {"solver": [("tfftq[:, 0, 0] = tfftq0[0, 0]", "tfftq[:, 0, 0] = tfftq0[0, 0] + 1e-3 * p000")]}),
    ("footprint_uses_source_norm", {"solver": [("tfftq0 = np.ones((nly, nlx), dtype=np.complex128) / nxe / nye", "tfftq0 = np.ones((nly, nlx), dtype=np.complex128) / nxe / nye * (1.0 + 0.0 * np.sum(q0) + 1e-3 * np.sum(q0))")]}),
]


def canary_probe(sym, sc):
    return kindl.probe_body(PID, body, sym, sc)


def main(run):
    run.explanation = (
        "The solver is executed on affine forms in every source entry and the background; staying affine with a "
        "zero constant term is linearity. z3 decides the zero-constant-term, background-offset, "
        "flux-independent-of-background and footprint-independent-of-source obligations for all fields; "
        "numerical and analytic mode."
    )
    run.assumptions = [
        "real arithmetic with the production doubles as coefficients; tolerance 1e-9 of the largest coefficient",
        "pyfftw = mathematical DFT; numba preserves Python semantics",
        "a NonAffine event (product/branch/division/comparison/absolute value on data) is replayed on the real package as additivity + homogeneity (factors 1e-14 .. 1e9) of random sign-changing, zero-mean and zero fields",
    ]
    kindl.validate_encoding(run)
    scs = kindl.base_scenarios(run.tier, run.seed)
    ana = [dict(s, pid="P1", analytic=True) for s in scs if s["pid"] in ("P1", "P2")]
    for s in ana:
        z, prof = kindl.profiles("P1", s["n"])
        s["growth"] = round(kindl.growth(z, prof, s["dx"], s["dy"]), 2)
    scs = scs + ana
    run.bounds = dict(grids=sorted({(s["ny"], s["nx"]) for s in scs}), profiles=sorted({s["pid"] for s in scs}),
                      layers=sorted({s["n"] for s in scs}), scenarios=len(scs), analytic_scenarios=len(ana),
                      outside="grids > 8x8, > 9 layers, other profile families, rounding")
    cex = run.pmap(worker, scs)
    kindl.handle_cex(run, PID, cex, replay)
    cscs = kindl.base_scenarios("quick", 0)
    pick = [s for s in cscs if len(s["levels"]) > 1][:2]
    kindl.run_canaries(run, "vf.props.C04:canary_probe", CANARIES, pick)
