"""C16 - met time series: one step per list entry, scalars broadcast,
mismatches rejected.  Engine B (CrossHair): the repository's own
MetConfig.n_timesteps / get_step / validate, BLDFMConfig.__post_init__, the
loop of run_bldfm_timeseries and of cli.cmd_run (run_bldfm_single replaced by
a recording stub) are executed symbolically over: each of the four fields
scalar or list (symbolic lists of symbolic length), ustar / z0 present or not,
timestamps absent or a list of symbolic length.  Conditions:
  check_count_xy : configuration building rejects exactly the forcings whose
                   lists or timestamps differ in length or that give neither
                   ustar nor z0; otherwise n_timesteps is the common length (or
                   1); split over the (ustar, mol) list flags for speed;
  check_count_shapes : the same oracle with the shape space split into cases
                   (each field scalar or a list of concrete length 1..LMAX,
                   timestamps absent or of length 0..TSMAX; 6 * 4^4 cases quick) and
                   the presence flags symbolic, entries concrete - decides changes that
                   pass the lists through numpy, where symbolic lengths stall;
  check_step     : step i takes the i-th entry of every list and the value of
                   every scalar, the i-th timestamp or else i, z0 iff given;
  check_drivers  : run_bldfm_timeseries and cli.cmd_run call the single run for
                   met_index 0..n-1 in order."""
import os

from .. import chrun

PID = "C16"
HERE = os.path.dirname(os.path.abspath(__file__))
TEMPLATE = os.path.join(HERE, "ch", "c16.py")
CONDITIONS = ["check_count_00", "check_count_01", "check_count_10", "check_count_11", "check_count_shapes", "check_step", "check_drivers"]
TWINS = ["twin_count", "twin_count_shapes", "twin_step", "twin_drivers"]


def main(run):
    quick = run.tier == "quick"
    subst = dict(LMAX=3 if quick else 4, TSMAX=4 if quick else 5)
    run.explanation = (
        "CrossHair symbolic execution (z3 per path) of the repository's MetConfig / BLDFMConfig / timeseries driver / "
        "CLI loop: only 'Confirmed over all paths' counts as held. Symbolic: the four list/scalar flags, the lists "
        "themselves (symbolic length 1..%d and symbolic entries), presence of ustar and z0, timestamps absent or a "
        "list of length 0..%d, the step index." % (subst["LMAX"], subst["TSMAX"])
    )
    run.assumptions = [
        "run_bldfm_single is replaced by a recording stub (only the number and order of calls is observed)",
        "values are ints (their magnitude is irrelevant to the plumbing)",
        "bounds: list lengths <= %d, timestamps <= %d" % (subst["LMAX"], subst["TSMAX"]),
    ]
    run.bounds = dict(subst)
    run.stubs = ["bldfm.interface.run_bldfm_single / bldfm.cli.run_bldfm_single -> recording stub", "bldfm.cli.initialize, load_config -> stubs", "_make_cache -> None"]
    from ..symnp.loader import Loader

    L = Loader(run=run)
    L.record("config_parser", "MetConfig.n_timesteps", "MetConfig.get_step", "MetConfig.validate", "BLDFMConfig.__post_init__")
    L.record("interface", "run_bldfm_timeseries")
    L.record("cli", "cmd_run")
    res = chrun.run_conditions(run, TEMPLATE, subst, CONDITIONS, TWINS, 150 if quick else 600, PID)
    for fn, rec, ok in res:
        run.report(rec, ok)


def replay(rec):
    return chrun.replay_record(rec, os.path.join(HERE, "ch"))
