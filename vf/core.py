"""Shared infrastructure of the checks: run context, evidence writer, solver
wrapper (z3 with hard timeouts, verdict accounting), known-findings handling,
violation reporting with the replay gate, exit-code contract.

Exit codes: 0 held on everything explored (KNOWN-FINDING lines allowed);
            1 a new, replayed violation (VIOLATION line printed);
            2 harness error / inconclusive (never reported as success).
"""
import hashlib
import inspect
import json
import os
import sys
import time
import traceback

import z3

VERIF = os.path.dirname(os.path.dirname(os.path.abspath(__file__)))
REPO = os.environ.get("VERIF_REPO", "/repo")
SRC = os.path.join(REPO, "src", "bldfm")

EXIT_OK, EXIT_VIOLATION, EXIT_HARNESS = 0, 1, 2


class HarnessError(Exception):
    """The check itself is broken or inconclusive (exit 2, never a VIOLATION)."""


def tier():
    return os.environ.get("VERIF_TIER", "quick")


def seed():
    try:
        return int(os.environ.get("VERIF_SEED", "0"))
    except ValueError:
        return 0


def sha(text):
    return hashlib.sha256(text.encode()).hexdigest()


# ---------------------------------------------------------------------------
# known findings


def load_findings(pid):
    path = os.path.join(VERIF, "known_findings.json")
    if not os.path.exists(path):
        return []
    with open(path) as f:
        data = json.load(f)
    return [e for e in data.get("findings", []) if e.get("property") == pid]


# ---------------------------------------------------------------------------
# the run context


class Run:
    """One execution of one property's check."""

    def __init__(self, pid, level="other"):
        self.pid = pid
        self.level = level
        self.tier = tier()
        self.seed = seed()
        self.t0 = time.time()
        self.queries = {"unsat": 0, "sat": 0, "unknown": 0}
        self.solver_s = 0.0
        self.obligations = {}  # name -> dict(count, unsat, sat, ...)
        self.functions = []
        self.transforms = []
        self.stubs = []
        self.assumptions = []
        self.bounds = {}
        self.samples = []
        self.scenarios = 0
        self.nontrivial = set()
        self.twins = {"sat": 0, "total": 0}
        self.canaries = {"caught": 0, "total": 0, "missed": []}
        self.replays = {"attempted": 0, "confirmed": 0}
        self.validation = {"vectors": 0, "max_rel_err": 0.0}
        self.paths = {"explored": 0, "cap_hits": 0}
        self.second_solver = {"queries": 0, "disagreements": 0}
        self.violations = []  # new, replayed
        self.known_hits = []  # (finding, what)
        self.inconclusive = []
        self.errors = []
        self.notes = []
        self.extra = {}
        self.explanation = ""
        self.smt_sample = None
        self.findings = load_findings(pid)
        self.matchers = {}  # signature kind -> predicate(replay dict) -> bool

    # -- bookkeeping -------------------------------------------------------
    def encode(self, module, name, source):
        self.functions.append({"module": module, "name": name, "sha256": sha(source)})

    def ob(self, name):
        return self.obligations.setdefault(
            name, {"queries": 0, "unsat": 0, "sat": 0, "unknown": 0}
        )

    def sample(self, s, cap=12):
        if len(self.samples) < cap:
            self.samples.append(s)

    def note(self, s):
        self.notes.append(s)

    # -- solver ------------------------------------------------------------
    def solve(self, solver, obligation, scenario=None, timeout_ms=None, symbolic=True):
        """check() with accounting.  Returns 'unsat' | 'sat' | 'unknown'."""
        if timeout_ms is None:
            timeout_ms = 60000 if self.tier == "quick" else 300000
        solver.set("timeout", timeout_ms)
        if self.smt_sample is None:
            try:
                txt = solver.to_smt2()
                if len(txt) < 6000:
                    self.smt_sample = txt
            except Exception:
                pass
        t = time.time()
        r = str(solver.check())
        self.solver_s += time.time() - t
        if r not in self.queries:
            r = "unknown"
        self.queries[r] += 1
        o = self.ob(obligation)
        o["queries"] += 1
        o[r] += 1
        if r == "unknown":
            self.inconclusive.append({"obligation": obligation, "scenario": scenario})
        elif r in ("sat", "unsat"):
            self._second_opinion(solver, r, obligation)
        if symbolic and scenario is not None:
            self.nontrivial.add((obligation, json.dumps(scenario, sort_keys=True, default=str)))
        elif symbolic:
            self.nontrivial.add((obligation, len(self.nontrivial)))
        return r

    # -- second solver -----------------------------------------------------
    def _second_opinion(self, solver, verdict, obligation):
        """A deterministic sample of the decided queries is written out as SMT-LIB2 and
        given to a second, independent solver binary (cvc5 1.0; /usr/bin/z3 4.8.12 when
        cvc5 does not answer).  A contradicting verdict is a harness error (exit 2):
        nothing the run reports is believed then.  `unknown`/timeouts of the second
        solver are counted, not failures."""
        every = int(os.environ.get("VERIF_CROSS_EVERY", "40" if self.tier == "quick" else "15"))
        cap = int(os.environ.get("VERIF_CROSS_CAP", "6" if self.tier == "quick" else "40"))
        n = self.queries["sat"] + self.queries["unsat"]
        # always the first decided query of each obligation, then every `every`-th
        first = self.ob(obligation)["sat"] + self.ob(obligation)["unsat"] == 1
        if every <= 0 or self.second_solver["queries"] >= cap or not (first or n % every == 0):
            return
        import subprocess
        import tempfile

        try:
            txt = solver.to_smt2()
        except Exception:
            return
        if len(txt) > 4_000_000:
            return
        txt = "(set-logic ALL)\n" + "\n".join(l for l in txt.splitlines() if not l.startswith("(set-info"))
        fd, path = tempfile.mkstemp(suffix=".smt2", prefix="vf_cross_")
        os.write(fd, txt.encode())
        os.close(fd)
        t = time.time()
        ans = None
        try:
            for cmd in (["cvc5", "--lang", "smt2", "--tlimit", "8000", path], ["/usr/bin/z3", "-T:10", path]):
                try:
                    out = subprocess.run(cmd, capture_output=True, text=True, timeout=25).stdout
                except Exception:
                    continue
                if "(error" in out:
                    continue
                first_line = out.strip().splitlines()[0].strip() if out.strip() else ""
                if first_line in ("sat", "unsat"):
                    ans = (os.path.basename(cmd[0]), first_line)
                    break
        finally:
            os.unlink(path)
        self.second_solver["queries"] += 1
        self.second_solver["seconds"] = round(self.second_solver.get("seconds", 0.0) + time.time() - t, 2)
        if ans is None:
            self.second_solver["no_answer"] = self.second_solver.get("no_answer", 0) + 1
        elif ans[1] == verdict:
            self.second_solver["agree"] = self.second_solver.get("agree", 0) + 1
            self.second_solver[ans[0]] = self.second_solver.get(ans[0], 0) + 1
        else:
            self.second_solver["disagreements"] += 1
            self.errors.append("second solver %s says %s where z3 said %s (obligation %s)" % (ans[0], ans[1], verdict, obligation))

    def twin(self, solver, what=""):
        """Reachability twin: the assumptions alone must be satisfiable."""
        solver.set("timeout", 60000)
        t = time.time()
        r = str(solver.check())
        self.solver_s += time.time() - t
        self.twins["total"] += 1
        if r == "sat":
            self.twins["sat"] += 1
        else:
            self.errors.append("vacuity twin not sat (%s): %s" % (r, what))
        return r == "sat"

    # -- parallel scenarios ------------------------------------------------
    def export(self):
        """Picklable summary of a worker-side Run (merged by the parent)."""
        return {
            "queries": self.queries,
            "solver_s": self.solver_s,
            "obligations": self.obligations,
            "samples": self.samples,
            "scenarios": self.scenarios,
            "nontrivial": list(self.nontrivial),
            "twins": self.twins,
            "canaries": self.canaries,
            "validation": self.validation,
            "paths": self.paths,
            "inconclusive": self.inconclusive,
            "errors": self.errors,
            "notes": self.notes,
            "smt_sample": self.smt_sample,
            "second_solver": self.second_solver,
            "functions": self.functions,
            "transforms": self.transforms,
            "stubs": self.stubs,
            "cex": getattr(self, "cex", []),
        }

    def merge(self, d):
        for k, v in d["queries"].items():
            self.queries[k] += v
        self.solver_s += d["solver_s"]
        for name, o in d["obligations"].items():
            mine = self.ob(name)
            for k, v in o.items():
                mine[k] = mine.get(k, 0) + v
        for s in d["samples"]:
            self.sample(s)
        self.scenarios += d["scenarios"]
        self.nontrivial.update(tuple(x) for x in d["nontrivial"])
        for k in ("sat", "total"):
            self.twins[k] += d["twins"][k]
        for k in ("caught", "total"):
            self.canaries[k] += d["canaries"][k]
        self.canaries["missed"] += d["canaries"].get("missed", [])
        self.validation["vectors"] += d["validation"]["vectors"]
        self.validation["max_rel_err"] = max(
            self.validation["max_rel_err"], d["validation"]["max_rel_err"]
        )
        for k in ("explored", "cap_hits"):
            self.paths[k] += d["paths"][k]
        self.inconclusive += d["inconclusive"]
        for k, v in d.get("second_solver", {}).items():
            self.second_solver[k] = round(self.second_solver.get(k, 0) + v, 2)
        self.errors += d["errors"]
        for n in d["notes"]:
            if n not in self.notes:
                self.notes.append(n)
        if self.smt_sample is None:
            self.smt_sample = d["smt_sample"]
        if not self.functions:
            self.functions = d["functions"]
            self.transforms = d["transforms"]
            self.stubs = d["stubs"]
        return d["cex"]

    def pmap(self, worker, items, procs=None):
        """Run worker(item) -> Run.export() dict in a spawn pool; merge; return
        the list of counterexamples (dicts) reported by the workers."""
        import concurrent.futures as cf
        import multiprocessing as mp

        items = list(items)
        if procs is None:
            procs = min(16, os.cpu_count() or 1, max(1, len(items)))
        cex = []
        if procs <= 1 or len(items) <= 1:
            for it in items:
                cex += self.merge(worker(it))
            return cex
        ctx = mp.get_context("spawn")
        with cf.ProcessPoolExecutor(max_workers=procs, mp_context=ctx) as pool:
            for d in pool.map(worker, items, chunksize=1):
                cex += self.merge(d)
        return cex

    # -- violations --------------------------------------------------------
    def matcher(self, kind):
        def deco(fn):
            self.matchers[kind] = fn
            return fn

        return deco

    def report(self, replay, confirmed):
        """A counterexample that has been replayed against the real code.

        replay: JSON-serialisable dict describing the failing input and both
        sides; confirmed: bool, whether the real code violates the property.
        """
        self.replays["attempted"] += 1
        if not confirmed:
            self.errors.append(
                "counterexample did not reproduce on the real code: %s"
                % json.dumps(replay, default=str)[:600]
            )
            return "unconfirmed"
        self.replays["confirmed"] += 1
        for f in self.findings:
            if f.get("status") != "known":
                continue
            kind = f.get("signature", {}).get("kind")
            pred = self.matchers.get(kind)
            if pred is not None and pred(replay, f.get("signature", {})):
                self.known_hits.append((f, replay))
                return "known"
        d = os.path.join(VERIF, "replays", self.pid)
        os.makedirs(d, exist_ok=True)
        path = os.path.join(d, "v%03d.json" % len(self.violations))
        with open(path, "w") as fh:
            json.dump(replay, fh, indent=1, default=str)
        self.violations.append((path, replay))
        return "new"

    # -- finishing ---------------------------------------------------------
    def finish(self):
        wall = time.time() - self.t0
        total_q = sum(self.queries.values())
        cov = {
            "explanation": self.explanation,
            "evaluations": total_q,
            "distinct_nontrivial": len(self.nontrivial),
            "rule": "evaluations = solver queries discharged; a case is a distinct "
            "(obligation, scenario) pair whose query contained at least one symbolic "
            "variable; vacuity twins and canaries are counted separately",
            "samples": self.samples,
            "functions_encoded": self.functions,
            "transforms": self.transforms,
            "stubs": self.stubs,
            "bounds": self.bounds,
            "scenarios": self.scenarios,
            "queries": self.queries,
            "obligations_by_name": self.obligations,
            "solver_s": round(self.solver_s, 3),
            "paths": self.paths,
            "encoding_validation": self.validation,
            "reachability_twins": self.twins,
            "canaries": self.canaries,
            "replays": self.replays,
            "second_solver": self.second_solver,
            "inconclusive": self.inconclusive[:20],
            "harness_errors": self.errors[:20],
            "known_findings_hit": [f.get("what") for f, _ in self.known_hits][:20],
            "notes": self.notes,
            "repo": REPO,
        }
        if self.smt_sample:
            cov["smt_sample"] = self.smt_sample
        cov.update(self.extra)
        ev = {
            "property_id": self.pid,
            "tier": self.tier,
            "seed": self.seed,
            "level": self.level,
            "coverage": cov,
            "assumptions": self.assumptions,
            "wall_s": round(wall, 2),
            "violations": len(self.violations),
        }
        os.makedirs(os.path.join(VERIF, "evidence"), exist_ok=True)
        path = os.path.join(VERIF, "evidence", self.pid + ".json")
        tmp = path + ".tmp"
        with open(tmp, "w") as fh:
            json.dump(ev, fh, indent=1, default=str)
        os.replace(tmp, path)

        seen = set()
        for f, rp in self.known_hits:
            key = f.get("what")
            if key in seen:
                continue
            seen.add(key)
            print("KNOWN-FINDING: property=%s %s" % (self.pid, f.get("what")))
        for path_v, _ in self.violations:
            print("VIOLATION property=%s replay=%s" % (self.pid, path_v))
        print(
            "[%s %s] queries=%d unsat=%d sat=%d unknown=%d solver=%.1fs wall=%.1fs "
            "twins=%d/%d canaries=%d/%d replays=%d/%d"
            % (
                self.pid,
                self.tier,
                total_q,
                self.queries["unsat"],
                self.queries["sat"],
                self.queries["unknown"],
                self.solver_s,
                wall,
                self.twins["sat"],
                self.twins["total"],
                self.canaries["caught"],
                self.canaries["total"],
                self.replays["confirmed"],
                self.replays["attempted"],
            )
        )
        if self.violations:
            return EXIT_VIOLATION
        if self.errors or self.inconclusive:
            for e in self.errors[:10]:
                print("HARNESS-ERROR: %s" % e)
            for e in self.inconclusive[:10]:
                print("INCONCLUSIVE: %s" % json.dumps(e, default=str))
            return EXIT_HARNESS
        if total_q == 0:
            print("HARNESS-ERROR: no query was discharged")
            return EXIT_HARNESS
        return EXIT_OK


def run_property(pid, main):
    """Run main(run) and translate the outcome to the exit-code contract."""
    run = Run(pid)
    try:
        main(run)
    except HarnessError as e:
        run.errors.append("HarnessError: %s" % e)
    except Exception:
        run.errors.append("unexpected exception:\n" + traceback.format_exc()[-3000:])
    code = run.finish()
    sys.stdout.flush()
    return code


def fn_source(fn):
    return inspect.getsource(fn)
