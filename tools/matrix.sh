#!/bin/bash
# tools/matrix.sh [tier]: run every seeded change against the check(s) of the property it breaks; FOREGROUND ONLY (patches /repo).
T=${1:-quick}
OUT=/verif/seeded/MATRIX_$T.txt
: > $OUT
cd /repo && git diff --quiet || { echo "/repo not clean"; exit 2; }
for d in /verif/seeded/*/; do
  n=$(basename $d)
  [ -f $d/patch.diff ] || continue
  case $n in
    R_C05*) props="C05";; R_C02*) props="C02 C03";; R_C19*) props="C19";; R_C16*) props="C16";; R_C10*) props="C10";;
    R_C11*) props="C11";; R_C07*) props="C07";; R_C15*) props="C15";;
    C03_a) props="C03 C11";; C04_a) props="C04 C05 C10";; C05_a) props="C05 C04";; C11_a) props="C11 C03";; C08_a) props="C08 C17";;
    C01_a) props="C01 C07";; C07_a) props="C07 C06";;
    *) props="${n%%_*}";;
  esac
  for p in $props; do
    git -C /repo apply $d/patch.diff || { echo "$n $p APPLY-FAILED" >> $OUT; continue; }
    ( cd /verif && timeout 3000 ./check $p --tier $T > /tmp/matrix_${n}_$p.log 2>&1 ); rc=$?
    git -C /repo checkout -- .
    echo "$n $p exit=$rc violations=$(grep -c '^VIOLATION' /tmp/matrix_${n}_$p.log) $(grep -E '^\[' /tmp/matrix_${n}_$p.log | tail -1)" >> $OUT
  done
done
echo DONE >> $OUT
