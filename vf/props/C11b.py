"""C11(b): the real solver source over a SHAPE domain with symbolic sizes.

An array is its shape - a tuple of z3 integer terms; pad, slice lengths
(max(0, min(stop, n) - min(start, n)) as If-terms, no fork), boolean-mask
indexing (shapes must be entailed equal, else the path raises IndexError as
numpy does), broadcasting, integer indexing, meshgrid; px, py are free
non-negative integers standing for int(halo / dx + eps).  The path explorer
forks only where the solver says both outcomes are feasible (mode parity, the
clamp, mask match, degenerate axes), so each of the handful of paths covers ALL
sizes satisfying its constraints: nx, ny >= 1, any even mode counts >= 2, any
pad >= 0 - no upper bound.

Asserted on every non-raising path: the shapes handed to the forward and
inverse transforms are the padded size (nye, nxe) (otherwise x = i dx is not
the coordinate of column i - the misregistration case), the returned fields
and coordinate arrays have the shape of the source (plus the level axis when
more than one level is requested).  A sat path gives concrete sizes, replayed
on the real solver."""
import builtins
import types

import numpy as np
import z3

from ..symnp.loader import Loader
from ..symnp import stubs

PID = "C11"


class Explorer:
    def __init__(self):
        self.work = [[]]
        self.paths = 0
        self.queries = 0
        self.prefix, self.pos, self.pc = [], 0, []

    def start(self, prefix, assume):
        self.prefix = list(prefix)
        self.pos = 0
        self.pc = list(assume)

    def feasible(self, extra):
        so = z3.Solver()
        so.set("timeout", 20000)
        so.add(self.pc)
        so.add(extra)
        self.queries += 1
        r = so.check()
        if r == z3.unknown:
            raise RuntimeError("feasibility unknown")
        return r == z3.sat

    def decide(self, cond):
        if self.pos < len(self.prefix):
            v = self.prefix[self.pos]
        else:
            t = self.feasible(cond)
            f = self.feasible(z3.Not(cond))
            if t and f:
                v = True
                self.work.append(self.prefix[: self.pos] + [False])
                self.prefix.append(True)
            else:
                v = t
                self.prefix.append(v)
        self.pos += 1
        self.pc.append(cond if v else z3.Not(cond))
        return v


EX = [None]


def zt(x):
    return x.t if isinstance(x, ZI) else z3.IntVal(int(x))


class ZB:
    def __init__(self, t):
        self.t = t

    def __bool__(self):
        return EX[0].decide(self.t)


class ZI:
    def __init__(self, t):
        self.t = t

    def __add__(self, o):
        if isinstance(o, float):
            return self
        return ZI(self.t + zt(o))

    __radd__ = __add__

    def __sub__(self, o):
        return ZI(self.t - zt(o))

    def __rsub__(self, o):
        return ZI(zt(o) - self.t)

    def __mul__(self, o):
        if isinstance(o, float):
            return 1.0
        return ZI(self.t * zt(o))

    __rmul__ = __mul__

    def __floordiv__(self, o):
        return ZI(self.t / zt(o))

    def __mod__(self, o):
        return ZI(self.t % zt(o))

    def __neg__(self):
        return ZI(-self.t)

    def __truediv__(self, o):
        return 1.0

    def __rtruediv__(self, o):
        return 1.0

    def __gt__(self, o):
        return ZB(self.t > zt(o))

    def __ge__(self, o):
        return ZB(self.t >= zt(o))

    def __lt__(self, o):
        return ZB(self.t < zt(o))

    def __le__(self, o):
        return ZB(self.t <= zt(o))

    def __eq__(self, o):
        return ZB(self.t == zt(o))

    def __ne__(self, o):
        return ZB(self.t != zt(o))

    __hash__ = None


def sym(x):
    return isinstance(x, ZI)


def zmax(a, b):
    if sym(a) or sym(b):
        return ZI(z3.If(zt(a) >= zt(b), zt(a), zt(b)))
    return max(a, b)


def zmin(a, b):
    if sym(a) or sym(b):
        return ZI(z3.If(zt(a) <= zt(b), zt(a), zt(b)))
    return min(a, b)


class Sh:
    """an array, abstracted to its shape"""

    def __init__(self, shape, nfalse=0):
        self.shape = tuple(shape)
        self.nfalse = nfalse

    @property
    def ndim(self):
        return len(self.shape)

    def __len__(self):
        raise TypeError("len() of a shape-abstracted array")

    @property
    def real(self):
        return Sh(self.shape)

    def _bc(self, o):
        if not isinstance(o, Sh):
            return Sh(self.shape)
        a, b = list(self.shape), list(o.shape)
        while len(a) < len(b):
            a.insert(0, 1)
        while len(b) < len(a):
            b.insert(0, 1)
        out = []
        for x, y in zip(a, b):
            if x is y or bool(x == y):
                out.append(x)
            elif bool(x == 1):
                out.append(y)
            elif bool(y == 1):
                out.append(x)
            else:
                raise ValueError("operands could not be broadcast together")
        return Sh(out)

    __add__ = __radd__ = __sub__ = __rsub__ = __mul__ = __rmul__ = __truediv__ = __rtruediv__ = _bc

    def __neg__(self):
        return Sh(self.shape)

    def __pow__(self, n):
        return Sh(self.shape)

    def _axis(self, n, k):
        if isinstance(k, slice):
            a = 0 if k.start is None else k.start
            b = n if k.stop is None else k.stop
            for v in (a, b):
                if bool(v < 0):
                    raise NotImplementedError("negative slice bound")
            a = zmin(a, n)
            b = zmin(b, n)
            return [zmax(b - a, 0)]
        if k is None:
            return None
        if bool(k >= n):
            raise IndexError("index out of bounds")
        return []

    def _index(self, key):
        if not isinstance(key, tuple):
            key = (key,)
        out = []
        dim = 0
        for k in key:
            if k is Ellipsis:
                rest = len([q for q in key if q is not Ellipsis and q is not None and not isinstance(q, Sh)]) + sum(q.ndim for q in key if isinstance(q, Sh))
                take = len(self.shape) - rest
                out += list(self.shape[dim: dim + take])
                dim += take
                continue
            if k is None:
                out.append(1)
                continue
            if isinstance(k, Sh):
                for x, y in zip(self.shape[dim: dim + k.ndim], k.shape):
                    if not (x is y or bool(x == y)):
                        raise IndexError("boolean index did not match indexed array")
                cnt = 1
                for d in k.shape:
                    cnt = cnt * d
                out.append(cnt - k.nfalse)
                dim += k.ndim
                continue
            if isinstance(k, list):
                out.append(len(k))
                dim += 1
                continue
            if dim >= len(self.shape):
                raise IndexError("too many indices for array")
            out += self._axis(self.shape[dim], k)
            dim += 1
        out += list(self.shape[dim:])
        return out

    def __getitem__(self, key):
        sh = self._index(key)
        if not sh and not (isinstance(key, tuple) and any(isinstance(k, (slice, Sh)) for k in key)):
            return 1.0
        return Sh(sh)

    def __setitem__(self, key, val):
        sh = self._index(key)
        if isinstance(val, Sh):
            t = Sh(sh)._bc(val)
            for x, y in zip(t.shape, sh):
                if not (x is y or bool(x == y)):
                    raise ValueError("could not broadcast input array")
        if getattr(self, "isbool", False) and isinstance(key, tuple) and not any(isinstance(k, (slice, Sh)) for k in key):
            self.nfalse = 1

    def tolist(self):
        return [0] * 1


FFT_IN = []


class NPS:
    pi = 3.141592653589793
    complex128 = "c16"
    complex64 = "c8"
    newaxis = None

    def ndim(self, x):
        return x.ndim if isinstance(x, Sh) else (1 if isinstance(x, (list, tuple)) else 0)

    def array(self, x):
        if isinstance(x, list) and all(isinstance(e, (int, np.integer)) for e in x):
            return list(x)  # an index array (the levels): kept concrete
        return Sh((len(x),)) if isinstance(x, list) else x

    def atleast_1d(self, x):
        return Sh((len(x),)) if isinstance(x, list) else Sh((1,))

    def shape(self, x):
        return x.shape

    def diff(self, x):
        return Sh((zmax(x.shape[0] - 1, 0),))

    def pad(self, a, pw, mode=None, constant_values=0.0):
        out = []
        for d, (l, r) in zip(a.shape, pw):
            if bool(l < 0) or bool(r < 0):
                raise ValueError("index can't contain negative values")
            out.append(d + l + r)
        return Sh(out)

    def ones(self, shape, dtype=None):
        for d in shape:
            if bool(d < 0):
                raise ValueError("negative dimensions are not allowed")
        r = Sh(shape)
        r.isbool = dtype is bool
        return r

    zeros = ones

    def meshgrid(self, *xs, indexing="xy"):
        if indexing == "xy":
            shp = (xs[1].shape[0], xs[0].shape[0]) + tuple(x.shape[0] for x in xs[2:])
        else:
            shp = tuple(x.shape[0] for x in xs)
        return [Sh(shp) for _ in xs]

    def sqrt(self, x):
        return Sh(x.shape) if isinstance(x, Sh) else x

    exp = sqrt

    def copy(self, x):
        return Sh(x.shape)

    def linspace(self, a, b, n, endpoint=True):
        return Sh((n,))

    def squeeze(self, x, axis=None):
        if axis is not None:
            axes = (axis,) if isinstance(axis, int) else tuple(axis)
            return Sh([d for i, d in enumerate(x.shape) if i not in axes])
        return Sh([d for d in x.shape if bool(d != 1)])


def s_fftfreq(n, d=1.0):
    if bool(n <= 0):
        raise ValueError("n should be > 0")
    return Sh((n,))


def s_fft(x, norm=None):
    FFT_IN.append(x.shape)
    return Sh(x.shape)


class PadTok:
    def __init__(self, v):
        self.v = v

    def __add__(self, o):
        return self

    __radd__ = __add__


class Halo:
    """halo width: int(halo / dx + eps) and int(halo / dy + eps) are free non-negative integers"""

    def __init__(self, px, py):
        self.px, self.py = px, py
        self.calls = 0

    def __truediv__(self, o):
        self.calls += 1
        return PadTok(self.px if self.calls == 1 else self.py)

    def __radd__(self, o):
        return 0.0

    __add__ = __radd__
    __mul__ = __rmul__ = __radd__


def s_int(v):
    return v.v if isinstance(v, PadTok) else builtins.int(v)


def s_len(v):
    return v.shape[0] if isinstance(v, Sh) else builtins.len(v)


def load(patch=None):
    ns = types.SimpleNamespace
    npfft = ns(fftshift=lambda x, axes=None: Sh(x.shape), ifftshift=lambda x, axes=None: Sh(x.shape), fftfreq=s_fftfreq)
    fm = ns(fft2=s_fft, ifft2=s_fft, get_fft_manager=lambda **k: None)
    env = {
        "modules": {"numpy": NPS(), "numpy.fft": npfft, "bldfm.fft_manager": fm, "numba": stubs.numba_stub()},
        "builtins": {"int": s_int, "len": s_len, "max": lambda *a: a[0] if len(a) == 1 else builtins.max(*a)},
        "patch": patch or {},
    }
    L = Loader(env)
    return L, L.load("solver")


def explore(mod, footprint, levels, cap=200):
    EX[0] = Explorer()
    E = EX[0]
    nx, ny, hx, hy, px, py = [z3.Int(n) for n in "nx ny hx hy px py".split()]
    assume = [nx >= 1, ny >= 1, hx >= 1, hy >= 1, px >= 0, py >= 0]
    viol = []
    outcomes = {}
    while E.work:
        if E.paths >= cap:
            return dict(cap_hit=True, paths=E.paths, queries=E.queries, outcomes=outcomes, violations=viol)
        prefix = E.work.pop()
        E.start(prefix, assume)
        E.paths += 1
        FFT_IN.clear()
        nz = 3
        try:
            g, c, f = mod.steady_state_transport_solver(
                Sh((ZI(ny), ZI(nx))), Sh((nz,)), tuple(Sh((nz,)) for _ in range(5)), (100.0, 80.0), levels,
                modes=(ZI(2 * hx), ZI(2 * hy)), meas_pt=(0.0, 0.0), footprint=footprint, halo=Halo(ZI(px), ZI(py)), precision="double")
        except (ValueError, IndexError) as e:
            outcomes[type(e).__name__] = outcomes.get(type(e).__name__, 0) + 1
            continue
        outcomes["return"] = outcomes.get("return", 0) + 1
        nl = len(levels) if isinstance(levels, list) else 1
        exp = ([nl] if nl > 1 else []) + [ZI(ny), ZI(nx)]
        bad = []
        for arr in (c, f) + tuple(g):
            shp = getattr(arr, "shape", None)
            if shp is None or len(shp) != len(exp):
                bad.append(z3.BoolVal(True))
            else:
                bad += [zt(a) != zt(b) for a, b in zip(shp, exp)]
        nxe, nye = nx + 2 * px, ny + 2 * py
        for shp in FFT_IN:
            bad += [zt(shp[-1]) != nxe, zt(shp[-2]) != nye]
        so = z3.Solver()
        so.set("timeout", 60000)
        so.add(E.pc)
        so.add(z3.Or(bad))
        E.queries += 1
        r = so.check()
        if r == z3.sat:
            m = so.model()
            viol.append({str(v): m.eval(v, True).as_long() for v in (nx, ny, hx, hy, px, py)})
        elif r == z3.unknown:
            outcomes["unknown"] = outcomes.get("unknown", 0) + 1
    return dict(cap_hit=False, paths=E.paths, queries=E.queries, outcomes=outcomes, violations=viol)


def replay_sizes(v, footprint, levels):
    """the model's sizes on the real solver: shape and registration (reciprocity) must hold or the call must raise"""
    from ..symnp import kindl

    real = kindl.real_pkg()
    S = real.solver.steady_state_transport_solver
    nx, ny = v["nx"], v["ny"]
    dx, dy = 10.0, 12.0
    halo = max(v["px"] * dx, v["py"] * dy) if v["px"] or v["py"] else 0.0
    # choose a halo that gives exactly (px, py) when possible; otherwise the nearest
    halo = v["px"] * dx + 0.5 if v["px"] * dx + 0.5 < (v["px"] + 1) * dx else v["px"] * dx
    z, prof = kindl.profiles("P2", 2)
    rng = np.random.default_rng(0)
    q = rng.standard_normal((ny, nx))
    modes = (2 * v["hx"], 2 * v["hy"])
    try:
        g, c, f = S(q, z, prof, (nx * dx, ny * dy), levels, modes=modes, meas_pt=(dx * (nx > 1), 0.0), footprint=footprint, halo=halo, precision="double")
    except Exception as e:
        return dict(raised=type(e).__name__, confirmed=False)
    nl = len(levels) if isinstance(levels, list) else 1
    want = ((nl,) if nl > 1 else ()) + (ny, nx)
    bad = np.shape(f) != want or np.shape(c) != want
    out = dict(shape=list(np.shape(f)), expected=list(want))
    if not bad:
        # registration through reciprocity
        kw = dict(modes=modes, halo=halo, precision="double")
        g, cf, ff = S(q, z, prof, (nx * dx, ny * dy), levels, meas_pt=(dx * (nx > 1), 0.0), footprint=True, **kw)
        try:
            g, cd, fd = S(q, z, prof, (nx * dx, ny * dy), levels, **kw)
            ff, fd = np.reshape(ff, (nl, ny, nx)), np.reshape(fd, (nl, ny, nx))
            err = max(abs(float(np.sum(q * ff[k])) - float(fd[k][0, 1 if nx > 1 else 0])) / max(np.abs(fd[k]).max(), 1e-300) for k in range(nl))
            out["reciprocity_error"] = err
            bad = err > 1e-7
        except Exception as e:
            out["dispersion_raised"] = type(e).__name__
    out["confirmed"] = bool(bad)
    return out


CANARIES = [
    ("symmetric_truncation", {"solver": [("dhx, dhy = nxe - nlx - dlx, nye - nly - dly", "dhx, dhy = dlx, dly")]}),
    ("squeeze_all_axes", {"solver": [("        grid = (X[0], Y[0], Z[0])\n        result = (grid, conc[0], flx[0])", "        grid = (np.squeeze(X), np.squeeze(Y), np.squeeze(Z))\n        result = (grid, np.squeeze(conc), np.squeeze(flx))")]}),
    ("crop_uses_px_for_y", {"solver": [("conc = p[:, py : nye - py, px : nxe - px]", "conc = p[:, px : nye - px, px : nxe - px]")]}),
]


def run_shapes(run, patch=None, account=True):
    L, mod = load(patch)
    if account:
        run.encode("bldfm.solver", "steady_state_transport_solver (shape domain, symbolic sizes)", L.function_source("solver", "steady_state_transport_solver"))
    found = []
    for footprint in (True, False):
        for levels in ([0, 2], 2):
            r = explore(mod, footprint, levels)
            scn = dict(part="b", footprint=footprint, levels=levels, sizes="nx, ny >= 1; modes = 2*hx, 2*hy >= 2; pads >= 0; unbounded")
            if account:
                run.paths["explored"] += r["paths"]
                run.paths["cap_hits"] += int(r["cap_hit"])
                o = run.ob("symbolic_sizes_transform_on_padded_grid_and_source_shape_returned")
                nq = r["outcomes"].get("return", 0)
                o["queries"] += nq
                o["sat"] += len(r["violations"])
                o["unsat"] += nq - len(r["violations"]) - r["outcomes"].get("unknown", 0)
                o["unknown"] += r["outcomes"].get("unknown", 0)
                run.queries["sat"] += len(r["violations"])
                run.queries["unsat"] += nq - len(r["violations"]) - r["outcomes"].get("unknown", 0)
                run.queries["unknown"] += r["outcomes"].get("unknown", 0)
                run.extra.setdefault("shape_domain", []).append(dict(scn, paths=r["paths"], feasibility_queries=r["queries"], outcomes=r["outcomes"]))
                run.nontrivial.add(("symbolic_sizes", repr(scn)))
                if r["cap_hit"] or r["outcomes"].get("unknown"):
                    run.inconclusive.append(dict(obligation="symbolic_sizes", scenario=scn, why="path cap or unknown"))
            for v in r["violations"][:2]:
                found.append((scn, v))
    if account:
        for scn, v in found[:3]:
            res = replay_sizes(v, scn["footprint"], scn["levels"])
            run.report(dict(property=PID, obligation="symbolic_sizes_transform_on_padded_grid_and_source_shape_returned", scenario=scn, sizes=v, replay=res), res["confirmed"])
    return found


def canaries(run):
    for name, patch in CANARIES:
        try:
            f = run_shapes(run, patch=patch, account=False)
        except KeyError:
            run.note("canary %s (shape domain) not applicable" % name)
            continue
        except Exception:
            f = ["raised"]
        run.canaries["total"] += 1
        if f:
            run.canaries["caught"] += 1
        else:
            run.canaries["missed"].append(name + " (shape domain)")
            run.errors.append("canary %s was not noticed by the shape-domain harness" % name)
