"""Load the repository's own modules from the current working tree into
private module objects, with the numerical leaves redirected to shims.

The function bodies are not rewritten.  Transforms applied (recorded in the
evidence): (1) import redirection through a private ``__import__``; (2)
``logger.<level>(...)`` expression statements dropped; (3) optionally, float /
complex literals wrapped into exact values; (4) selected builtins shadowed in
the module namespace.  Everything is regenerated from the source text on every
run, so an edited working tree is picked up with no change to /verif.
"""
import ast
import builtins
import importlib
import os
import types

from ..core import SRC, sha

_LOG_METHODS = {"debug", "info", "warning", "error", "critical", "exception"}


class _DropLogging(ast.NodeTransformer):
    def visit_Expr(self, node):
        v = node.value
        if (
            isinstance(v, ast.Call)
            and isinstance(v.func, ast.Attribute)
            and v.func.attr in _LOG_METHODS
            and isinstance(v.func.value, ast.Name)
            and v.func.value.id == "logger"
        ):
            return ast.Pass()
        return node


class _ExactLiterals(ast.NodeTransformer):
    """1.0 / 6.0 -> _XQ('1.0') / _XQ('6.0');  1j -> _XJ('1')."""

    def visit_Constant(self, node):
        if isinstance(node.value, bool):
            return node
        if isinstance(node.value, float):
            return ast.copy_location(
                ast.Call(ast.Name("_XQ", ast.Load()), [ast.Constant(repr(node.value))], []),
                node,
            )
        if isinstance(node.value, complex):
            return ast.copy_location(
                ast.Call(
                    ast.Name("_XJ", ast.Load()), [ast.Constant(repr(node.value.imag))], []
                ),
                node,
            )
        return node


class Pkg:
    """Stand-in for the ``bldfm`` package object (lazy private submodules)."""

    def __init__(self, loader):
        self._loader = loader

    def __getattr__(self, name):
        if name.startswith("__"):
            raise AttributeError(name)
        return self._loader.load(name)


class Loader:
    """env: dict with optional keys
    modules  : {fully qualified module name -> replacement object}
    builtins : {name -> object} shadowed in every loaded module
    exact    : bool, wrap float/complex literals (needs _XQ/_XJ in builtins)
    keep_logging : bool
    src      : source directory (default: the repository working tree)
    """

    def __init__(self, env=None, run=None):
        self.env = env or {}
        self.src = self.env.get("src", SRC)
        self.cache = {}
        self.sources = {}
        self.trees = {}
        self.run = run
        self.pkg = Pkg(self)
        self.mutate = self.env.get("mutate")  # callable(modname, tree) -> tree

    # -- source access -----------------------------------------------------
    def path(self, sub):
        p = os.path.join(self.src, *sub.split("."))
        if os.path.isdir(p):
            return os.path.join(p, "__init__.py")
        return p + ".py"

    def source(self, sub):
        if sub not in self.sources:
            with open(self.path(sub)) as f:
                src = f.read()
            # canaries: in-memory text patches (nothing is written to the repo)
            for old, new in self.env.get("patch", {}).get(sub, []):
                if old not in src:
                    raise KeyError("canary anchor not found in %s: %r" % (sub, old))
                src = src.replace(old, new)
            self.sources[sub] = src
        return self.sources[sub]

    def function_source(self, sub, name):
        """Source text of a top-level function or Class.method."""
        tree = ast.parse(self.source(sub))
        parts = name.split(".")
        body = tree.body
        node = None
        for p in parts:
            node = next(
                (
                    n
                    for n in body
                    if isinstance(n, (ast.FunctionDef, ast.ClassDef)) and n.name == p
                ),
                None,
            )
            if node is None:
                raise KeyError("%s.%s not found" % (sub, name))
            body = node.body
        return ast.get_source_segment(self.source(sub), node)

    def record(self, sub, *names):
        if self.run is not None:
            for n in names:
                self.run.encode("bldfm." + sub, n, self.function_source(sub, n))

    # -- import machinery --------------------------------------------------
    def _import(self, name, globals=None, locals=None, fromlist=(), level=0):
        pkgname = (globals or {}).get("__package__") or "bldfm"
        if level > 0:
            base = pkgname.split(".")
            base = base[: len(base) - (level - 1)]
            full = ".".join(base + ([name] if name else []))
        else:
            full = name
        mods = self.env.get("modules", {})
        if full in mods:
            m = mods[full]
            if not fromlist and "." in full:
                return mods.get(full.split(".")[0], m)
            return m
        if full == "bldfm":
            return self.pkg
        if full.startswith("bldfm."):
            sub = full[len("bldfm."):]
            m = self.load(sub)
            return m if fromlist else self.pkg
        top = full.split(".")[0]
        if top in mods and not fromlist:
            return mods[top]
        m = importlib.import_module(full)
        if not fromlist and "." in full:
            return importlib.import_module(top)
        return m

    def load(self, sub):
        if sub in self.cache:
            return self.cache[sub]
        src = self.source(sub)
        tree = ast.parse(src)
        if not self.env.get("keep_logging"):
            tree = _DropLogging().visit(tree)
        if self.mutate is not None:
            tree = self.mutate(sub, tree) or tree
        if self.env.get("exact"):
            tree = _ExactLiterals().visit(tree)
        ast.fix_missing_locations(tree)
        mod = types.ModuleType("vfpriv_bldfm." + sub)
        mod.__file__ = self.path(sub)
        is_pkg = self.path(sub).endswith("__init__.py")
        mod.__package__ = "bldfm." + sub if is_pkg else ".".join(["bldfm"] + sub.split(".")[:-1])
        b = dict(vars(builtins))
        b["__import__"] = self._import
        mod.__dict__["__builtins__"] = b
        for k, v in self.env.get("builtins", {}).items():
            mod.__dict__[k] = v
        self.cache[sub] = mod
        code = compile(tree, self.path(sub), "exec")
        exec(code, mod.__dict__)
        self.trees[sub] = tree
        return mod

    def transforms(self):
        t = [
            "import redirection via private __import__ (numpy/numba/pyfftw/... -> shims; "
            "intra-package imports -> privately loaded repository modules)",
        ]
        if not self.env.get("keep_logging"):
            t.append("logger.<level>(...) expression statements dropped")
        if self.env.get("exact"):
            t.append("float/complex literals wrapped into exact rationals (_XQ/_XJ)")
        if self.env.get("builtins"):
            t.append("builtins shadowed in module namespace: %s" % sorted(self.env["builtins"]))
        return t
