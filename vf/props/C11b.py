"""C11(b): symbolic sizes (placeholder until the shape domain lands)."""


def run_shapes(run):
    run.note("C11(b) symbolic-size shape domain: engine not built yet")
