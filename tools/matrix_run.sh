#!/bin/bash
# tools/matrix_run.sh <outfile> <seed>:<prop> ...   FOREGROUND ONLY (patches /repo), never while other checks run.
# Re-runs the given pairs (quick tier) and replaces their lines in <outfile>.
OUT=$1; shift
touch $OUT
cd /repo && git diff --quiet || { echo "/repo not clean"; exit 2; }
for pair in "$@"; do n=${pair%%:*}; p=${pair##*:}
  grep -v -E "^$n $p " $OUT > $OUT.tmp; mv $OUT.tmp $OUT
  git -C /repo apply /verif/seeded/$n/patch.diff || { echo "$n $p APPLY-FAILED" >> $OUT; continue; }
  ( cd /verif && timeout 5400 ./check $p --tier quick > /tmp/matrix_${n}_$p.log 2>&1 ); rc=$?
  git -C /repo checkout -- .
  echo "$n $p exit=$rc violations=$(grep -c '^VIOLATION' /tmp/matrix_${n}_$p.log) $(grep -E '^\[' /tmp/matrix_${n}_$p.log | tail -1)" >> $OUT
done
