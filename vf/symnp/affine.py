"""Engine A, affine domain: scalars are complex affine forms  c0 + sum_j c_j x_j
over named *real* solver variables, stored as dense coefficient vectors.
Arrays are ordinary numpy object arrays (thin subclass for .real/.imag), so
indexing, slicing, padding, shifting, masks, broadcasting and shape errors are
numpy's own.  A computation that stops being affine in the symbolic data raises
NonAffine (the harness then reports the property "result is linear in the data"
as refuted rather than silently approximating).
"""
import cmath
import math
from fractions import Fraction

import numpy as np
import z3


class NonAffine(Exception):
    pass


class Space:
    """Registry of real variables.  Index 0 is the constant term."""

    def __init__(self):
        self.names = ["1"]
        self.phase = {}  # key -> (iC, iS)
        self.phase_info = {}

    @property
    def dim(self):
        return len(self.names)

    def new(self, name):
        self.names.append(name)
        return len(self.names) - 1

    def var(self, name):
        j = self.new(name)
        c = np.zeros(self.dim, complex)
        c[j] = 1.0
        return Aff(c, self)


def _pad(c, n):
    if len(c) == n:
        return c
    out = np.zeros(n, complex)
    out[: len(c)] = c
    return out


_NUM = (int, float, complex, np.integer, np.floating, np.complexfloating, Fraction)


def _real(v):
    v = complex(v) if not isinstance(v, (int, float)) else v
    if isinstance(v, complex):
        if v.imag:
            raise TypeError("complex operand")
        return v.real
    return v


class Aff:
    """c: coefficient vector; sp: Space; p: precision taint (1 = the value has
    passed through single-precision storage / a single-precision transform)."""

    __slots__ = ("c", "sp", "p")

    def __init__(self, c, sp, p=0):
        self.c = c
        self.sp = sp
        self.p = p

    # -- helpers
    @staticmethod
    def const(v, sp, p=0):
        c = np.zeros(sp.dim, complex)
        c[0] = v
        return Aff(c, sp, p)

    def is_const(self):
        return not self.c[1:].any()

    def value(self):
        if not self.is_const():
            raise NonAffine("symbolic value used where a number is needed")
        return complex(self.c[0])

    def _co(self, o):
        """coerce other operand: returns (vector or None, scalar or None)"""
        if isinstance(o, Aff):
            return o
        if isinstance(o, _NUM):
            return complex(o)
        return None

    # -- arithmetic
    def __add__(self, o):
        o = self._co(o)
        if o is None:
            return NotImplemented
        if isinstance(o, Aff):
            n = max(len(self.c), len(o.c))
            return Aff(_pad(self.c, n) + _pad(o.c, n), self.sp, self.p | o.p)
        c = self.c.copy()
        c[0] += o
        return Aff(c, self.sp, self.p)

    __radd__ = __add__

    def __neg__(self):
        return Aff(-self.c, self.sp, self.p)

    def __pos__(self):
        return self

    def __sub__(self, o):
        o = self._co(o)
        if o is None:
            return NotImplemented
        return self + (-o)

    def __rsub__(self, o):
        o = self._co(o)
        if o is None:
            return NotImplemented
        return (-self) + o

    def __mul__(self, o):
        o = self._co(o)
        if o is None:
            return NotImplemented
        if isinstance(o, Aff):
            if o.is_const():
                return Aff(self.c * o.c[0], self.sp, self.p | o.p)
            if self.is_const():
                return Aff(o.c * self.c[0], self.sp, self.p | o.p)
            raise NonAffine("product of two data-dependent quantities")
        return Aff(self.c * o, self.sp, self.p)

    __rmul__ = __mul__

    def __truediv__(self, o):
        o = self._co(o)
        if o is None:
            return NotImplemented
        p = self.p
        if isinstance(o, Aff):
            if not o.is_const():
                raise NonAffine("division by a data-dependent quantity")
            p |= o.p
            o = o.c[0]
        return Aff(self.c / o, self.sp, p)

    def __rtruediv__(self, o):
        o = self._co(o)
        if o is None:
            return NotImplemented
        if not self.is_const():
            raise NonAffine("division by a data-dependent quantity")
        if isinstance(o, Aff):
            return Aff(o.c / self.c[0], self.sp, self.p | o.p)
        return Aff.const(o / self.c[0], self.sp, self.p)

    def __pow__(self, k):
        if isinstance(k, Aff):
            k = k.value()
        if self.is_const():
            return Aff.const(self.c[0] ** k, self.sp, self.p)
        if k == 1:
            return self
        raise NonAffine("power of a data-dependent quantity")

    def _cmp(self, o):
        a = self.value()
        b = o.value() if isinstance(o, Aff) else complex(o)
        if a.imag or b.imag:
            raise TypeError("ordering of complex values")
        return a.real, b.real

    def __lt__(self, o):
        a, b = self._cmp(o)
        return a < b

    def __le__(self, o):
        a, b = self._cmp(o)
        return a <= b

    def __gt__(self, o):
        a, b = self._cmp(o)
        return a > b

    def __ge__(self, o):
        a, b = self._cmp(o)
        return a >= b

    def __eq__(self, o):
        # a branch on data is exactly what linearity forbids: constants compare, symbolic values raise
        if isinstance(o, Aff):
            return self.value() == o.value()
        if isinstance(o, _NUM):
            return self.value() == complex(o)
        return NotImplemented

    def __ne__(self, o):
        r = self.__eq__(o)
        return r if r is NotImplemented else not r

    __hash__ = object.__hash__

    def __bool__(self):
        return bool(self.value())

    def __complex__(self):
        return self.value()

    def __float__(self):
        v = self.value()
        if v.imag:
            raise TypeError("complex")
        return v.real

    def __mod__(self, o):
        return Aff.const(_real(self.value()) % _real(o.value() if isinstance(o, Aff) else o), self.sp, self.p)

    def __rmod__(self, o):
        return Aff.const(_real(o) % _real(self.value()), self.sp, self.p)

    def __floordiv__(self, o):
        return Aff.const(_real(self.value()) // _real(o.value() if isinstance(o, Aff) else o), self.sp, self.p)

    def __rfloordiv__(self, o):
        return Aff.const(_real(o) // _real(self.value()), self.sp, self.p)

    def __getattr__(self, name):
        # numpy's object loops look a ufunc up as a method of the element (x.log(), x.isfinite(), ...):
        # constants are numbers; of a data-dependent quantity none of these is affine
        if name.startswith("_") or not hasattr(np, name) or not isinstance(getattr(np, name), np.ufunc):
            raise AttributeError(name)
        uf = getattr(np, name)

        def f(*a):
            v = self.value()  # NonAffine when symbolic
            v = v.real if v.imag == 0 else v
            r = uf(v, *a)
            if isinstance(r, (bool, np.bool_)):
                return bool(r)
            return Aff.const(complex(r), self.sp, self.p)

        return f

    def __abs__(self):
        # |.| of a data-dependent quantity is not affine (value() raises NonAffine); constants are numbers
        return abs(self.value())

    # -- functions (numpy ufuncs on object arrays call these methods)
    def sqrt(self):
        return Aff.const(cmath.sqrt(self.value()), self.sp, self.p)

    def conjugate(self):
        return Aff(np.conj(self.c), self.sp, self.p)

    conj = conjugate

    def exp(self):
        if self.is_const():
            return Aff.const(cmath.exp(self.c[0]), self.sp, self.p)
        # exp(c0 + i * sum a_j x_j): a unit-modulus phase in the position
        # variables.  It is represented by two fresh real variables (C, S) in
        # [-1, 1] per distinct linear part: exp(i th) = C + i S.  Independent
        # phase variables over-approximate the true ones, so a proof transfers.
        lin = self.c[1:]
        if np.abs(lin.real).max() > 1e-13 * max(1.0, np.abs(lin.imag).max()):
            raise NonAffine("exp of a data-dependent quantity with a real part")
        idx = np.nonzero(lin.imag)[0]
        key = tuple((int(j) + 1, float(np.round(lin.imag[j], 10))) for j in idx)
        sign = 1.0
        if key[0][1] < 0:
            key = tuple((j, -a) for j, a in key)
            sign = -1.0
        sp = self.sp
        if key not in sp.phase:
            n = len(sp.phase)
            sp.phase[key] = (sp.new("phC%d" % n), sp.new("phS%d" % n))
            sp.phase_info[n] = key
        iC, iS = sp.phase[key]
        c = np.zeros(sp.dim, complex)
        e0 = cmath.exp(self.c[0])
        c[iC] = e0
        c[iS] = 1j * sign * e0
        return Aff(c, sp, self.p)

    @property
    def real(self):
        return Aff(self.c.real.astype(complex), self.sp, self.p)

    @property
    def imag(self):
        return Aff(self.c.imag.astype(complex), self.sp, self.p)

    def single(self):
        """the value after a round trip through single-precision storage"""
        return Aff(self.c, self.sp, 1)

    def __repr__(self):
        nz = np.nonzero(self.c)[0]
        return "Aff(" + " + ".join("%s*%s" % (self.c[j], self.sp.names[j]) for j in nz[:6]) + ")"


_SP = [None]  # the Space of the shim that created the most recent tagged array
_LAST_SP = [None]  # the Space of the most recently created shim


class SymArr(np.ndarray):
    """object ndarray whose elements are Aff (or numbers)."""

    tag = None  # 'c8' for arrays created with a single-precision complex dtype

    def __array_finalize__(self, obj):
        self.tag = getattr(obj, "tag", None)

    def __array_wrap__(self, arr, context=None, return_scalar=False):
        # reductions give the element itself, as for plain object arrays
        if arr.ndim == 0:
            return arr[()]
        out = arr.view(SymArr)
        out.tag = None  # results of arithmetic are fresh (promoted) arrays
        return out

    def __array_ufunc__(self, ufunc, method, *inputs, out=None, **kw):
        """numpy's own object loops first (they call the Aff methods); where numpy has no object loop for the
        routine (isfinite, log of plain floats, ...) the routine is applied to the NUMBERS when every operand
        is a constant, and is a NonAffine event when an operand depends on the data"""

        def base(x):
            return x.view(np.ndarray) if isinstance(x, SymArr) else x

        ins = tuple(base(x) for x in inputs)
        if out is not None:
            kw["out"] = tuple(base(o) for o in out)
        try:
            res = getattr(ufunc, method)(*ins, **kw)
        except TypeError:
            if out is not None:
                raise
            res = _numeric_ufunc(ufunc, method, ins, kw)
        if out is not None:
            return out[0] if len(out) == 1 else out
        if isinstance(res, tuple):
            return tuple(self._rewrap(r) for r in res)
        return self._rewrap(res)

    def __array_function__(self, func, types, args, kwargs):
        try:
            return super().__array_function__(func, types, args, kwargs)
        except TypeError:
            # a numpy routine without an object-dtype path (isclose, allclose, isfinite ...): on numbers when all
            # operands are constants, a NonAffine event otherwise
            def num(x):
                if isinstance(x, (np.ndarray, Aff)):
                    return _numeric_ufunc(_IDENT, "__call__", (x,), {})
                if isinstance(x, (list, tuple)):
                    return type(x)(num(e) for e in x)
                return x

            return func(*[num(a) for a in args], **{k: num(v) for k, v in kwargs.items()})

    @staticmethod
    def _rewrap(res):
        if isinstance(res, np.ndarray) and res.dtype == object:
            if res.ndim == 0:
                return res[()]
            out = res.view(SymArr)
            out.tag = None
            return out
        return res

    def fill(self, value):
        p = 1 if self.tag == "c8" else 0
        for idx in np.ndindex(self.shape):
            np.ndarray.__setitem__(self, idx, value.single() if (p and isinstance(value, Aff)) else (value if isinstance(value, Aff) else Aff.const(value, _SP[0] or _LAST_SP[0], p)))

    def __setitem__(self, key, val):
        if self.tag == "c8":
            # storing into single-precision storage rounds the value
            if isinstance(val, Aff):
                val = val.single()
            elif isinstance(val, np.ndarray) and val.dtype == object:
                v2 = np.empty(val.shape, dtype=object)
                for idx in np.ndindex(val.shape):
                    e = val[idx]
                    v2[idx] = e.single() if isinstance(e, Aff) else Aff.const(e, _SP[0], 1)
                val = v2
            elif isinstance(val, np.ndarray):
                v2 = np.empty(val.shape, dtype=object)
                for idx in np.ndindex(val.shape):
                    v2[idx] = Aff.const(val[idx], _SP[0], 1)
                val = v2
            elif isinstance(val, _NUM):
                val = Aff.const(val, _SP[0], 1)
        np.ndarray.__setitem__(self, key, val)

    @property
    def real(self):
        out = np.empty(self.shape, dtype=object)
        for idx in np.ndindex(self.shape):
            e = np.ndarray.__getitem__(self, idx)
            out[idx] = e.real if isinstance(e, (Aff, complex)) else e
        return out.view(SymArr)

    @property
    def imag(self):
        out = np.empty(self.shape, dtype=object)
        for idx in np.ndindex(self.shape):
            e = np.ndarray.__getitem__(self, idx)
            out[idx] = e.imag if isinstance(e, (Aff, complex)) else 0.0
        return out.view(SymArr)


class _Ident:
    __name__ = "function"

    @staticmethod
    def __call__(x):
        return x


_IDENT = _Ident()


def _numeric_ufunc(ufunc, method, ins, kw):
    conv = []
    for x in ins:
        if isinstance(x, np.ndarray) and x.dtype == object:
            flat = []
            cplx = False
            for e in x.ravel():
                if isinstance(e, Aff):
                    if not e.is_const():
                        raise NonAffine("numpy.%s of a data-dependent quantity" % ufunc.__name__)
                    e = e.value()
                    e = e.real if e.imag == 0 else e
                cplx = cplx or isinstance(e, complex)
                flat.append(e)
            conv.append(np.array(flat, dtype=complex if cplx else float).reshape(x.shape))
        elif isinstance(x, Aff):
            if not x.is_const():
                raise NonAffine("numpy.%s of a data-dependent quantity" % ufunc.__name__)
            v = x.value()
            conv.append(v.real if v.imag == 0 else v)
        else:
            conv.append(x)
    return getattr(ufunc, method)(*conv, **kw)


def is_sym(x):
    return isinstance(x, np.ndarray) and x.dtype == object


def sym_field(sp, shape, prefix):
    out = np.empty(shape, dtype=object)
    for idx in np.ndindex(*shape):
        out[idx] = sp.var(prefix + "_" + "_".join(map(str, idx)))
    return out.view(SymArr)


def const_array(sp, a):
    a = np.asarray(a)
    out = np.empty(a.shape, dtype=object)
    for idx in np.ndindex(a.shape):
        out[idx] = Aff.const(a[idx], sp)
    return out.view(SymArr)


def coeffs(x, sp):
    """(..., dim) complex coefficient tensor of an object (or numeric) array."""
    x = np.asarray(x)
    dim = sp.dim
    C = np.zeros(x.shape + (dim,), complex)
    if x.dtype != object:
        C[..., 0] = x
        return C
    for idx in np.ndindex(x.shape):
        e = x[idx]
        if isinstance(e, np.ndarray) and e.ndim == 0:
            e = e[()]
        if isinstance(e, Aff):
            C[idx][: len(e.c)] = e.c
        else:
            C[idx][0] = e
    return C


def from_coeffs(C, sp, p=0):
    out = np.empty(C.shape[:-1], dtype=object)
    for idx in np.ndindex(out.shape):
        out[idx] = Aff(C[idx].copy(), sp, p)
    return out.view(SymArr)


def taints(x):
    """per-element precision taint of an object array (0 for plain numbers)"""
    x = np.asarray(x)
    t = np.zeros(x.shape, int)
    if x.dtype != object:
        return t
    for idx in np.ndindex(x.shape):
        e = x[idx]
        if isinstance(e, np.ndarray) and e.ndim == 0:
            e = e[()]
        if isinstance(e, Aff):
            t[idx] = e.p
    return t


# ---------------------------------------------------------------------------
# numpy shim


def _obj_ufunc(name, fallback):
    def call(e):
        if isinstance(e, Aff):
            return getattr(e, name)()
        return fallback(e)

    f = np.frompyfunc(call, 1, 1)

    def wrapped(x, *a, **k):
        if is_sym(x):
            return f(x).view(SymArr)
        if isinstance(x, Aff):
            return call(x)
        return getattr(np, name)(x, *a, **k)

    return wrapped


class NPShim:
    """Stand-in for the numpy module inside privately loaded repository code.
    Everything falls through to numpy except array constructors of complex
    dtype (which must be able to hold symbolic entries) and the elementwise
    transcendental functions on object arrays."""

    def __init__(self, sp):
        self._sp = sp
        _LAST_SP[0] = sp
        self.exp = _obj_ufunc("exp", cmath.exp)
        self.sqrt = _obj_ufunc("sqrt", cmath.sqrt)

    def __getattr__(self, n):
        return getattr(np, n)

    def _filled(self, shape, v, dtype):
        if dtype is not None and np.dtype(dtype).kind == "c":
            if isinstance(shape, (int, np.integer)):
                shape = (shape,)
            for d in shape:
                if d < 0:
                    raise ValueError("negative dimensions are not allowed")
            single = np.dtype(dtype) == np.complex64
            out = np.empty(tuple(shape), dtype=object)
            for idx in np.ndindex(out.shape):
                out[idx] = Aff.const(v, self._sp, 1 if single else 0)
            out = out.view(SymArr)
            if single:
                out.tag = "c8"
                _SP[0] = self._sp
            return out
        return None

    def zeros(self, shape, dtype=float, **k):
        r = self._filled(shape, 0.0, dtype)
        return r if r is not None else np.zeros(shape, dtype=dtype, **k)

    def ones(self, shape, dtype=float, **k):
        r = self._filled(shape, 1.0, dtype)
        return r if r is not None else np.ones(shape, dtype=dtype, **k)

    def empty(self, shape, dtype=float, **k):
        r = self._filled(shape, 0.0, dtype)
        return r if r is not None else np.empty(shape, dtype=dtype, **k)

    def full(self, shape, fill_value, dtype=None, **k):
        r = self._filled(shape, fill_value, dtype if dtype is not None else (complex if isinstance(fill_value, (complex, Aff)) else None))
        return r if r is not None else np.full(shape, fill_value, dtype=dtype, **k)

    def zeros_like(self, a, dtype=None, **k):
        if is_sym(a) and dtype is None:
            out = self._filled(np.shape(a), 0.0, np.complex64 if getattr(a, "tag", None) == "c8" else np.complex128)
            return out
        r = self._filled(np.shape(a), 0.0, dtype) if dtype is not None else None
        return r if r is not None else np.zeros_like(a, dtype=dtype, **k)

    def empty_like(self, a, dtype=None, **k):
        return self.zeros_like(a, dtype=dtype, **k)

    def copy(self, a, *args, **k):
        if is_sym(a):
            return np.array(a, dtype=object, copy=True).view(SymArr)
        return np.copy(a, *args, **k)

    def sum(self, a, *args, **k):
        return np.sum(a, *args, **k)


def dft2(x, sp, inverse, norm):
    """The mathematical 2-D DFT over the last two axes with numpy's norm
    conventions, applied to the coefficient tensor (the transform is linear
    over C and the variables are real)."""
    x = np.asarray(x)
    if x.dtype != object:
        f = np.fft.ifft2 if inverse else np.fft.fft2
        return f(x, norm=norm)
    C = coeffs(x, sp)
    f = np.fft.ifft2 if inverse else np.fft.fft2
    C = f(C, axes=(-3, -2), norm=norm)
    # a transform of single-precision data is a single-precision transform
    p = int(taints(x).max()) if x.size else 0
    return from_coeffs(C, sp, p)


# ---------------------------------------------------------------------------
# z3 queries on affine forms


def _q(v):
    return z3.Q(*Fraction(float(v)).as_integer_ratio()) if v else z3.RealVal(0)


class Box:
    """z3 variables x_j in [-1, 1] for a Space (created lazily)."""

    def __init__(self, sp):
        self.sp = sp
        self.vars = {}

    def v(self, j):
        if j not in self.vars:
            self.vars[j] = z3.Real("x_" + self.sp.names[j])
        return self.vars[j]

    def bounds(self):
        out = []
        for x in self.vars.values():
            out.append(x >= -1)
            out.append(x <= 1)
        return out

    def term(self, vec):
        """z3 term of a real coefficient vector."""
        t = [_q(vec[0])]
        for j in np.nonzero(vec[1:])[0]:
            t.append(_q(vec[j + 1]) * self.v(int(j) + 1))
        return z3.Sum(t) if len(t) > 1 else t[0]


GRID = 10**6  # coefficient differences are rounded to 1e-6 of the tolerance


def diff_query(sp, lhs, rhs, tol_abs):
    """Solver asserting  exists x in [-1,1]^V : some cell |lhs - rhs| > tol_abs.
    lhs, rhs: arrays (object or numeric) of equal shape.  The coefficient
    differences are expressed in units of the tolerance and rounded to 1e-6 of
    it (so that the exact rationals of ~1e-17 rounding residues do not swamp
    the simplex); the threshold is 1 in those units.  Returns
    (solver, box, nterms); nterms == 0 means the forms coincide on that grid."""
    L = coeffs(lhs, sp)
    R = coeffs(rhs, sp)
    if L.shape != R.shape:
        raise ValueError("shape mismatch %s vs %s" % (L.shape[:-1], R.shape[:-1]))
    D = (L - R).reshape(-1, sp.dim) / tol_abs
    box = Box(sp)
    disj = []
    one = z3.RealVal(1)
    seen = set()
    for row in D:
        for part in (row.real, row.imag):
            if not np.isfinite(part).all():
                disj.append(z3.BoolVal(True))
                continue
            k = np.rint(part * GRID)
            if not k.any():
                continue
            # |sum k_j x_j + k_0| <= sum |k_j| : rows that cannot reach the
            # threshold are still handed to the solver (it decides), but
            # identical rows are sent once
            key = k.tobytes()
            if key in seen:
                continue
            seen.add(key)
            t = [z3.Q(int(k[0]), GRID)] if k[0] else []
            for jx in np.nonzero(k[1:])[0]:
                t.append(z3.Q(int(k[jx + 1]), GRID) * box.v(int(jx) + 1))
            t = z3.Sum(t) if len(t) > 1 else t[0]
            disj.append(t > one)
            disj.append(t < -one)
    s = z3.Solver()
    s.add(box.bounds())
    s.add(z3.Or(disj) if disj else z3.BoolVal(False))
    return s, box, len(disj)


def top_row_query(sp, lhs, rhs, tol_abs):
    """The single cell with the largest coefficient gap, as its own query: a
    model of it is a model of the full disjunction (used first, because a
    disjunction of hundreds of violated rows is slow to satisfy)."""
    L = coeffs(lhs, sp)
    R = coeffs(rhs, sp)
    D = (L - R).reshape(-1, sp.dim) / tol_abs
    parts = np.concatenate([D.real, D.imag], axis=0)
    parts = np.where(np.isfinite(parts), parts, 1e30)
    l1 = np.abs(parts).sum(axis=1)
    i = int(np.argmax(l1))
    if l1[i] <= 1.0:
        return None, None
    k = np.rint(np.clip(parts[i], -1e12, 1e12) * GRID)
    box = Box(sp)
    t = [z3.Q(int(k[0]), GRID)] if k[0] else []
    for jx in np.nonzero(k[1:])[0]:
        t.append(z3.Q(int(k[jx + 1]), GRID) * box.v(int(jx) + 1))
    if not t:
        return None, None
    t = z3.Sum(t) if len(t) > 1 else t[0]
    s = z3.Solver()
    s.add(box.bounds())
    s.add(z3.Or(t > 1, t < -1))
    return s, box


def model_values(model, box, sp):
    """variable name -> float from a z3 model (0 for unconstrained), rescaled so that the
    largest magnitude is 1: the compared forms are homogeneous in the data, so the scaled
    assignment separates them just as well and is not lost in rounding during replay."""
    out = {}
    for j in range(1, sp.dim):
        x = box.vars.get(j)
        v = 0.0
        if x is not None:
            mv = model.eval(x, model_completion=True)
            v = float(mv.numerator_as_long()) / float(mv.denominator_as_long())
        out[sp.names[j]] = v
    m = max([abs(v) for v in out.values()] or [0.0])
    if m > 0:
        out = {k: v / m for k, v in out.items()}
    return out


def scale_of(arr, sp):
    C = coeffs(arr, sp)
    return float(np.abs(C).max())
