"""C17 - tower geolocation: local metres and lat/lon are mutual inverses,
well oriented.

Kind P/U, exact arithmetic, no bound on the coordinates (|ref_lat| < 90).  The
repository's config_parser.latlon_to_xy, plotting/_geo.xy_to_latlon,
TowerConfig.compute_local_xy and BLDFMConfig.__post_init__ are executed with
all coordinates symbolic reals; cos(radians(ref_lat)) is one uninterpreted
value (positive for |ref_lat| < 90), radians/degrees multiplication by pi/180
and its inverse.  z3 decides: both round trips are the identity; the origin
maps to (0, 0); x grows with longitude and does not depend on latitude, y grows
with latitude and does not depend on longitude; array input gives the scalar
formula element-wise; building a configuration fills tower.x, tower.y with
exactly latlon_to_xy(tower, ref) for every reference origin, including
ref_lat = 0 or ref_lon = 0 (path explorer).

Outside: agreement with great-circle distance/bearing to 0.1 % / 0.1 degree -
a polynomial enclosure of the haversine formula was tried at design time:
z3 5.1 unknown after 120 s, cvc5 no answer; no interval / delta-complete
solver is installed."""
import math
import types

import numpy as np
import z3

from ..symnp import exact as ex
from ..symnp.loader import Loader

PID = "C17"


def load(patch=None):
    ns = types.SimpleNamespace
    env = ex.exact_env(extra_modules={"matplotlib": ns(pyplot=ns()), "matplotlib.pyplot": ns()})
    env["patch"] = patch or {}
    L = Loader(env)
    return L, L.load("config_parser"), L.load("plotting._geo")


def obligations(cp, geo):
    """-> list of (name, fn(ctx) -> list of z3 'bad' conditions)"""

    def common(c):
        lat, lon, rlat, rlon = (c.real(n) for n in ("lat", "lon", "ref_lat", "ref_lon"))
        c.assume += [rlat.v > -90, rlat.v < 90, lat.v >= -90, lat.v <= 90, lon.v >= -180, lon.v <= 180, rlon.v >= -180, rlon.v <= 180]
        return lat, lon, rlat, rlon

    def roundtrip_latlon(c):
        lat, lon, rlat, rlon = common(c)
        x, y = cp.latlon_to_xy(lat, lon, rlat, rlon)
        lat2, lon2 = geo.xy_to_latlon(x, y, rlat, rlon)
        return [ex.neq(lat2, lat), ex.neq(lon2, lon)]

    def roundtrip_xy(c):
        _, _, rlat, rlon = common(c)
        x, y = c.real("x"), c.real("y")
        c.assume += [x.v >= -5000, x.v <= 5000, y.v >= -5000, y.v <= 5000]
        lat, lon = geo.xy_to_latlon(x, y, rlat, rlon)
        x2, y2 = cp.latlon_to_xy(lat, lon, rlat, rlon)
        return [ex.neq(x2, x), ex.neq(y2, y)]

    def origin(c):
        _, _, rlat, rlon = common(c)
        x, y = cp.latlon_to_xy(rlat, rlon, rlat, rlon)
        la, lo = geo.xy_to_latlon(ex.R(0), ex.R(0), rlat, rlon)
        return [ex.neq(x, 0), ex.neq(y, 0), ex.neq(la, rlat), ex.neq(lo, rlon)]

    def orientation(c):
        lat, lon, rlat, rlon = common(c)
        lat2, lon2 = c.real("lat2"), c.real("lon2")
        x, y = cp.latlon_to_xy(lat, lon, rlat, rlon)
        xa, ya = cp.latlon_to_xy(lat2, lon, rlat, rlon)  # other latitude, same longitude
        xb, yb = cp.latlon_to_xy(lat, lon2, rlat, rlon)  # other longitude, same latitude
        return [
            z3.And(lon.v > rlon.v, ex.zt(x) <= 0), z3.And(lon.v < rlon.v, ex.zt(x) >= 0),
            z3.And(lat.v > rlat.v, ex.zt(y) <= 0), z3.And(lat.v < rlat.v, ex.zt(y) >= 0),
            ex.neq(xa, x), ex.neq(yb, y),
            z3.And(lon2.v > lon.v, ex.zt(xb) <= ex.zt(x)), z3.And(lat2.v > lat.v, ex.zt(ya) <= ex.zt(y)),
        ]

    def inverse_orientation(c):
        _, _, rlat, rlon = common(c)
        x, y, x2, y2 = (c.real(n) for n in ("x", "y", "x2", "y2"))
        la, lo = geo.xy_to_latlon(x, y, rlat, rlon)
        la2, lo2 = geo.xy_to_latlon(x2, y2, rlat, rlon)
        return [z3.And(x2.v > x.v, ex.zt(lo2) <= ex.zt(lo)), z3.And(y2.v > y.v, ex.zt(la2) <= ex.zt(la)),
                z3.And(x2.v == x.v, ex.zt(lo2) != ex.zt(lo)), z3.And(y2.v == y.v, ex.zt(la2) != ex.zt(la))]

    def arrays(c):
        _, _, rlat, rlon = common(c)
        xs = ex.xarr([c.real("x0"), c.real("x1"), c.real("x2")])
        ys = ex.xarr([c.real("y0"), c.real("y1"), c.real("y2")])
        la, lo = geo.xy_to_latlon(xs, ys, rlat, rlon)
        bad = []
        if np.shape(la) != (3,) or np.shape(lo) != (3,):
            return [z3.BoolVal(True)]
        for i in range(3):
            a, b = geo.xy_to_latlon(xs[i], ys[i], rlat, rlon)
            bad += [ex.neq(la[i], a), ex.neq(lo[i], b)]
        return bad

    def config_fills_xy(c):
        lat, lon, rlat, rlon = common(c)
        dom = cp.DomainConfig(nx=4, ny=4, xmax=100.0, ymax=100.0, nz=2, ref_lat=rlat, ref_lon=rlon)
        t1 = cp.TowerConfig(name="A", lat=lat, lon=lon, z_m=10.0)
        t2 = cp.TowerConfig(name="B", lat=rlat, lon=rlon, z_m=5.0)
        cp.BLDFMConfig(domain=dom, towers=[t1, t2], met=cp.MetConfig(ustar=0.3))
        x, y = cp.latlon_to_xy(lat, lon, rlat, rlon)
        return [ex.neq(t1.x, x), ex.neq(t1.y, y), ex.neq(t2.x, 0), ex.neq(t2.y, 0)]

    return [("latlon_to_xy_then_back_is_identity", roundtrip_latlon), ("xy_to_latlon_then_back_is_identity", roundtrip_xy),
            ("origin_maps_to_zero", origin), ("x_east_y_north_and_separable", orientation), ("inverse_monotone_and_separable", inverse_orientation),
            ("array_input_elementwise", arrays), ("configuration_fills_tower_xy_for_every_origin", config_fills_xy)]


def run_all(run, patch=None, account=True):
    """-> list of (name, model dict) for refuted obligations"""
    L, cp, geo = load(patch)
    if account:
        L.run = run
        L.record("config_parser", "latlon_to_xy", "TowerConfig.compute_local_xy", "BLDFMConfig.__post_init__")
        L.record("plotting._geo", "xy_to_latlon")
        run.transforms = L.transforms()
    found = []
    for name, fn in obligations(cp, geo):
        npaths = 0
        for bad, c in ex.explore(fn, cap=16):
            npaths += 1
            s = ex.solver_for(c)
            s.add(z3.Or(bad))
            scn = dict(obligation=name, path=npaths)
            if account:
                r = run.solve(s, name, scn, timeout_ms=120000)
                run.twin(ex.solver_for(c), name)
                run.paths["explored"] += 1
            else:
                s.set("timeout", 60000)
                r = str(s.check())
            if r == "sat":
                m = s.model()
                vals = {}
                for d in m.decls():
                    if d.name() in ("lat", "lon", "ref_lat", "ref_lon", "x", "y", "lat2", "lon2", "x2", "y2"):
                        v = m[d]
                        try:
                            vals[d.name()] = float(v.numerator_as_long()) / float(v.denominator_as_long())
                        except Exception:
                            try:
                                vals[d.name()] = float(v.approx(20).numerator_as_long()) / float(v.approx(20).denominator_as_long())
                            except Exception:
                                pass
                found.append((name, vals))
    return found


def replay(rec):
    """real functions on a grid of concrete points incl. the model's"""
    from bldfm.config_parser import BLDFMConfig, DomainConfig, MetConfig, TowerConfig, latlon_to_xy
    from bldfm.plotting._geo import xy_to_latlon

    m = rec.get("model", {})
    refs = [(m.get("ref_lat", 50.0), m.get("ref_lon", 11.0)), (0.0, 11.0), (50.0, 0.0), (-35.0, 179.99), (60.0, -180.0), (10.0, 180.0), (0.0, 0.0),
            (51.4779, -0.0013), (-12.0, 0.004)]  # domains straddling the Greenwich meridian
    bad = []
    for rlat, rlon in refs:
        if not (-89 < rlat < 89):
            continue
        for dx, dy in ((1200.0, -800.0), (-4000.0, 3000.0), (0.7, 0.9), (m.get("x", 10.0), m.get("y", 20.0))):
            la, lo = xy_to_latlon(dx, dy, rlat, rlon)
            x2, y2 = latlon_to_xy(float(la), float(lo), rlat, rlon)
            if abs(x2 - dx) > 1e-5 or abs(y2 - dy) > 1e-5:
                bad.append(["xy->latlon->xy", rlat, rlon, dx, dy, x2, y2])
            if (dx > 0) != (float(lo) > rlon) or (dy > 0) != (float(la) > rlat):
                bad.append(["orientation", rlat, rlon, dx, dy, float(la), float(lo)])
        for dlat, dlon in ((0.01, 0.02), (-0.03, -0.01), (m.get("lat", rlat + 0.005) - rlat, m.get("lon", rlon + 0.005) - rlon)):
            lat, lon = rlat + dlat, rlon + dlon
            x, y = latlon_to_xy(lat, lon, rlat, rlon)
            la, lo = xy_to_latlon(x, y, rlat, rlon)
            if abs(float(la) - lat) > 1e-9 or abs(float(lo) - lon) > 1e-9:
                bad.append(["latlon->xy->latlon", rlat, rlon, lat, lon, float(la), float(lo)])
            dom = DomainConfig(nx=4, ny=4, xmax=100.0, ymax=100.0, nz=2, ref_lat=rlat, ref_lon=rlon)
            t = TowerConfig(name="A", lat=lat, lon=lon, z_m=10.0)
            BLDFMConfig(domain=dom, towers=[t], met=MetConfig(ustar=0.3))
            if abs(t.x - x) > 1e-9 or abs(t.y - y) > 1e-9:
                bad.append(["config tower xy", rlat, rlon, lat, lon, t.x, t.y, x, y])
    return dict(discrepancies=bad[:8], confirmed=bool(bad))


CANARIES = [
    ("x_uses_point_latitude", {"config_parser": [("(lon_r - ref_lon_r) * math.cos(ref_lat_r)", "(lon_r - ref_lon_r) * math.cos(lat_r)")]}),
    ("y_sign", {"config_parser": [("y = _EARTH_RADIUS * (lat_r - ref_lat_r)", "y = _EARTH_RADIUS * (ref_lat_r - lat_r)")]}),
    ("inverse_radius", {"plotting._geo": [("R = 6_371_000.0", "R = 6_378_137.0")]}),
    ("truthiness_of_reference", {"config_parser": [("if self.domain.ref_lat is not None and self.domain.ref_lon is not None:", "if self.domain.ref_lat and self.domain.ref_lon:")]}),
    ("inverse_forgets_cos", {"plotting._geo": [("np.degrees(x / (R * np.cos(np.radians(ref_lat))))", "np.degrees(x / R)")]}),
    ("longitude_wrapped", {"plotting._geo": [("    return lats, lons", "    lons = (lons + 180.0) % 360.0 - 180.0\n    return lats, lons")]}),
]


def main(run):
    run.explanation = (
        "Exact-arithmetic symbolic execution of the real coordinate functions with all coordinates symbolic reals and cos(radians(ref_lat)) "
        "an uninterpreted positive value: z3 decides the two round-trip identities, origin, orientation/monotonicity/separability, "
        "element-wise array behaviour and that building a configuration fills tower x, y for EVERY reference origin (path explorer over the "
        "`is not None` / truthiness decisions). No bound on the coordinates beyond |ref_lat| < 90."
    )
    run.assumptions = [
        "cos uninterpreted with cos(t) > 0 for |t| < pi/2; radians/degrees = multiplication by pi/180 and 180/pi with 3.14159265 < pi < 3.14159266",
        "exact rationals for the literals of the source; rounding of the production doubles is outside the claim",
        "OUTSIDE: 0.1 % / 0.1 degree agreement with great-circle geometry (z3 and cvc5 fail on the enclosure encoding)",
    ]
    found = run_all(run)
    for name, vals in found:
        res = replay(dict(model=vals))
        run.report(dict(property=PID, obligation=name, model=vals, replay=res, cmd="./check C17 --replay <this file>"), res["confirmed"])
    run.bounds = dict(coordinates="all reals with |ref_lat| < 90, |lat| <= 90, |lon| <= 180, |x|,|y| <= 5000 m", paths=run.paths["explored"])
    run.sample(dict(obligations=[n for n, _ in obligations(None, None)] if False else "see obligations_by_name"))
    for name, patch in CANARIES:
        try:
            f = run_all(run, patch=patch, account=False)
        except KeyError:
            run.note("canary %s not applicable" % name)
            continue
        except Exception:
            f = ["raised"]
        run.canaries["total"] += 1
        if f:
            run.canaries["caught"] += 1
        else:
            run.canaries["missed"].append(name)
            run.errors.append("canary %s was not noticed by the harness" % name)
