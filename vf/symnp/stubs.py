"""Contract stubs for the C-level / OS-level leaves of the repository code.
Each stub is part of the claim of every property that uses it."""
import types


def numba_stub():
    """numba.jit / set_num_threads: compilation preserves the Python semantics
    of the decorated function for either value of ``parallel``."""
    calls = {"jit": [], "set_num_threads": []}

    def jit(*a, **k):
        calls["jit"].append(dict(k))
        if a and callable(a[0]) and not k:
            return a[0]

        def deco(fn):
            return fn

        return deco

    def set_num_threads(n):
        calls["set_num_threads"].append(n)

    m = types.SimpleNamespace(
        jit=jit, njit=jit, set_num_threads=set_num_threads, prange=range, _calls=calls
    )
    return m


def pyfftw_stub(fft2, ifft2):
    """pyfftw: fft2/ifft2 are the mathematical DFT (independent of thread
    count, plan cache, wisdom); configuration calls are recorded no-ops."""
    log = []
    cache = types.SimpleNamespace(
        enable=lambda: log.append("cache.enable"),
        disable=lambda: log.append("cache.disable"),
        set_keepalive_time=lambda t: log.append(("keepalive", t)),
    )
    numpy_fft = types.SimpleNamespace(
        fft2=lambda x, norm="backward", **k: fft2(x, norm),
        ifft2=lambda x, norm="backward", **k: ifft2(x, norm),
    )
    interfaces = types.SimpleNamespace(numpy_fft=numpy_fft, cache=cache)
    config = types.SimpleNamespace(NUM_THREADS=1)
    m = types.SimpleNamespace(
        interfaces=interfaces,
        config=config,
        import_wisdom=lambda w: (True, True, True),
        export_wisdom=lambda: (b"", b"", b""),
        _log=log,
    )
    return m


class _NoFile:
    """pathlib.Path stand-in for the FFTW wisdom file: never exists."""

    def __init__(self, *a):
        self.a = a

    def exists(self):
        return False

    def __str__(self):
        return "<wisdom>"


def atexit_stub():
    return types.SimpleNamespace(register=lambda *a, **k: None)


def pathlib_nofile():
    return types.SimpleNamespace(Path=_NoFile)
