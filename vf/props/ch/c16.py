"""CrossHair conditions for C16 (met time series).  The functions under test
are the repository's own MetConfig / BLDFMConfig / run_bldfm_timeseries /
cli.cmd_run; only run_bldfm_single is replaced by a recording stub.  Values
are ints (their magnitude is irrelevant to the plumbing)."""
import logging
import types
from typing import List

logging.disable(logging.CRITICAL)

import bldfm.cli as CLI
import bldfm.interface as I
from bldfm.config_parser import BLDFMConfig, DomainConfig, MetConfig, TowerConfig

_calls: List[int] = []


def _single(config, tower, met_index=0, surface_flux=None, cache=None):
    _calls.append(met_index)
    return {"timestamp": config.met.get_step(met_index)["timestamp"], "tower_name": tower.name, "i": met_index}


I.run_bldfm_single = _single
CLI.run_bldfm_single = _single
CLI.initialize = lambda *a, **k: None
I._make_cache = lambda config: None


def _field(is_list: bool, lst: List[int], scalar: int):
    return list(lst) if is_list else scalar


def _expect(fields, ustar_present, z0_present, ts):
    lens = [len(f) for f in fields if isinstance(f, list)]
    n = lens[0] if lens else 1
    valid = (ustar_present or z0_present) and len(set(lens)) <= 1 and (ts is None or len(ts) == n)
    return n, valid


def _build(ustar, mol, ws, wd, z0, ts):
    met = MetConfig(ustar=ustar, mol=mol, wind_speed=ws, wind_dir=wd, z0=z0, timestamps=ts)
    dom = DomainConfig(nx=4, ny=4, xmax=10.0, ymax=10.0, nz=2)
    return BLDFMConfig(domain=dom, towers=[TowerConfig(name="T", lat=0.0, lon=0.0, z_m=5.0)], met=met)


def check_count(ul: bool, ulst: List[int], upresent: bool, ml: bool, mlst: List[int],
                sl: bool, slst: List[int], dl: bool, dlst: List[int],
                z0present: bool, tspresent: bool, ts: List[int]) -> bool:
    ustar = _field(ul, ulst, 3) if upresent else None
    mol, ws, wd = _field(ml, mlst, -50), _field(sl, slst, 4), _field(dl, dlst, 200)
    stamps = ts if tspresent else None
    n, valid = _expect([ustar, mol, ws, wd], upresent, z0present, stamps)
    try:
        cfg = _build(ustar, mol, ws, wd, 1 if z0present else None, stamps)
    except ValueError:
        return not valid
    return valid and cfg.met.n_timesteps == n


def check_count_00(ulst: List[int], upresent: bool, mlst: List[int], sl: bool, slst: List[int], dl: bool, dlst: List[int],
                   z0present: bool, tspresent: bool, ts: List[int]) -> bool:
    """
    pre: 1 <= len(ulst) <= {LMAX} and 1 <= len(mlst) <= {LMAX} and 1 <= len(slst) <= {LMAX} and 1 <= len(dlst) <= {LMAX} and len(ts) <= {TSMAX}
    post: _
    """
    return check_count(False, ulst, upresent, False, mlst, sl, slst, dl, dlst, z0present, tspresent, ts)


def check_count_01(ulst: List[int], upresent: bool, mlst: List[int], sl: bool, slst: List[int], dl: bool, dlst: List[int],
                   z0present: bool, tspresent: bool, ts: List[int]) -> bool:
    """
    pre: 1 <= len(ulst) <= {LMAX} and 1 <= len(mlst) <= {LMAX} and 1 <= len(slst) <= {LMAX} and 1 <= len(dlst) <= {LMAX} and len(ts) <= {TSMAX}
    post: _
    """
    return check_count(False, ulst, upresent, True, mlst, sl, slst, dl, dlst, z0present, tspresent, ts)


def check_count_10(ulst: List[int], upresent: bool, mlst: List[int], sl: bool, slst: List[int], dl: bool, dlst: List[int],
                   z0present: bool, tspresent: bool, ts: List[int]) -> bool:
    """
    pre: 1 <= len(ulst) <= {LMAX} and 1 <= len(mlst) <= {LMAX} and 1 <= len(slst) <= {LMAX} and 1 <= len(dlst) <= {LMAX} and len(ts) <= {TSMAX}
    post: _
    """
    return check_count(True, ulst, upresent, False, mlst, sl, slst, dl, dlst, z0present, tspresent, ts)


def check_count_11(ulst: List[int], upresent: bool, mlst: List[int], sl: bool, slst: List[int], dl: bool, dlst: List[int],
                   z0present: bool, tspresent: bool, ts: List[int]) -> bool:
    """
    pre: 1 <= len(ulst) <= {LMAX} and 1 <= len(mlst) <= {LMAX} and 1 <= len(slst) <= {LMAX} and 1 <= len(dlst) <= {LMAX} and len(ts) <= {TSMAX}
    post: _
    """
    return check_count(True, ulst, upresent, True, mlst, sl, slst, dl, dlst, z0present, tspresent, ts)


def twin_count(ul: bool, ulst: List[int], upresent: bool, ml: bool, mlst: List[int],
               sl: bool, slst: List[int], dl: bool, dlst: List[int],
               z0present: bool, tspresent: bool, ts: List[int]) -> bool:
    """
    pre: 1 <= len(ulst) <= {LMAX} and 1 <= len(mlst) <= {LMAX} and 1 <= len(slst) <= {LMAX} and 1 <= len(dlst) <= {LMAX} and len(ts) <= {TSMAX}
    post: _
    """
    check_count(ul, ulst, upresent, ml, mlst, sl, slst, dl, dlst, z0present, tspresent, ts)
    return False


def check_count_shapes(upresent: bool, z0present: bool) -> bool:
    """
    pre: True
    post: _
    """
    # case split over the (finite) shape space: every field scalar or a list of
    # length 1..LMAX, timestamps absent or of length 0..TSMAX; the entries and the
    # presence flags stay symbolic.  The lengths are concrete here so that code
    # which hands the lists to a C extension (numpy) does not stall the engine;
    # the entries are concrete for the same reason (numpy rejects proxy ints,
    # "proxy intolerance"; they are symbolic in check_count_00..11).
    pool = [11, 12, 13, 14, 15, 16]
    for ku in range({LMAX} + 1):
        for km in range({LMAX} + 1):
            for ks in range({LMAX} + 1):
                for kd in range({LMAX} + 1):
                    for kt in range(-1, {TSMAX} + 1):
                        ok = check_count(ku > 0, pool[:ku], upresent, km > 0, pool[:km], ks > 0, pool[:ks],
                                         kd > 0, pool[:kd], z0present, kt >= 0, pool[:max(kt, 0)])
                        if not ok:
                            raise AssertionError("shape (0 = scalar) ustar=%d mol=%d wind_speed=%d wind_dir=%d timestamps=%d"
                                                 % (ku, km, ks, kd, kt))
    return True


def twin_count_shapes(upresent: bool, z0present: bool) -> bool:
    """
    pre: True
    post: _
    """
    check_count_shapes(upresent, z0present)
    return False


def check_step(ul: bool, ml: bool, sl: bool, dl: bool, lst1: List[int], lst2: List[int], lst3: List[int], lst4: List[int],
               us: int, ms: int, ss: int, ds: int, upresent: bool, z0present: bool, z0: int,
               tspresent: bool, ts: List[int], i: int) -> bool:
    """
    pre: 1 <= len(lst1) <= {LMAX} and len(lst1) == len(lst2) == len(lst3) == len(lst4) == len(ts) and 0 <= i < len(lst1) and (upresent or z0present)
    post: _
    """
    any_list = (ul and upresent) or ml or sl or dl
    if not any_list:
        if i != 0:
            return True
        ts = ts[:1]
    ustar = _field(ul, lst1, us) if upresent else None
    mol, ws, wd = _field(ml, lst2, ms), _field(sl, lst3, ss), _field(dl, lst4, ds)
    stamps = ts if tspresent else None
    cfg = _build(ustar, mol, ws, wd, z0 if z0present else None, stamps)
    st = cfg.met.get_step(i)
    ok = st["ustar"] == ((lst1[i] if ul else us) if upresent else None)
    ok = ok and st["mol"] == (lst2[i] if ml else ms) and st["wind_speed"] == (lst3[i] if sl else ss)
    ok = ok and st["wind_dir"] == (lst4[i] if dl else ds)
    ok = ok and st["timestamp"] == (ts[i] if tspresent else i)
    ok = ok and ((st.get("z0") == z0) if z0present else ("z0" not in st))
    return ok


def twin_step(ul: bool, ml: bool, sl: bool, dl: bool, lst1: List[int], lst2: List[int], lst3: List[int], lst4: List[int],
              us: int, ms: int, ss: int, ds: int, upresent: bool, z0present: bool, z0: int,
              tspresent: bool, ts: List[int], i: int) -> bool:
    """
    pre: 1 <= len(lst1) <= {LMAX} and len(lst1) == len(lst2) == len(lst3) == len(lst4) == len(ts) and 0 <= i < len(lst1) and (upresent or z0present)
    post: _
    """
    check_step(ul, ml, sl, dl, lst1, lst2, lst3, lst4, us, ms, ss, ds, upresent, z0present, z0, tspresent, ts, i)
    return False


def check_drivers(ul: bool, ml: bool, sl: bool, dl: bool, n: int, z0present: bool, tspresent: bool) -> bool:
    """
    pre: 1 <= n <= {LMAX}
    post: _
    """
    lst = list(range(10, 10 + n))
    ustar = lst if ul else (None if z0present else 3)
    mol = lst if ml else -50
    ws = lst if sl else 4
    wd = lst if dl else 200
    any_list = ul or ml or sl or dl
    steps = n if any_list else 1
    stamps = ["t%d" % k for k in range(steps)] if tspresent else None
    cfg = _build(ustar, mol, ws, wd, 1 if z0present else None, stamps)
    _calls.clear()
    res = I.run_bldfm_timeseries(cfg, cfg.towers[0])
    if _calls != list(range(steps)) or len(res) != steps:
        return False
    if [r["timestamp"] for r in res] != (stamps if stamps is not None else list(range(steps))):
        return False
    _calls.clear()
    saved = CLI.load_config
    CLI.load_config = lambda path: cfg
    try:
        CLI.cmd_run(types.SimpleNamespace(config="x.yaml", dry_run=False, plot=False))
    finally:
        CLI.load_config = saved
    return _calls == list(range(steps))


def twin_drivers(ul: bool, ml: bool, sl: bool, dl: bool, n: int, z0present: bool, tspresent: bool) -> bool:
    """
    pre: 1 <= n <= {LMAX}
    post: _
    """
    check_drivers(ul, ml, sl, dl, n, z0present, tspresent)
    return False
