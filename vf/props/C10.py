"""C10 - each returned slice is the solution at the height the grid reports.

Kind L, symbolic source.  For every ordered selection of distinct levels from
the nodes of a small vertical grid (all of them: ascending, descending,
unsorted, with / without the top node, single; list / ndarray / scalar
arguments), in footprint and dispersion mode, numerical and analytic: slice k
of the multi-level call is the same linear form as the single-level call for
levels[k] and as slice levels[k] of the full-column call; the returned height
coordinate of slice k is z[levels[k]].  An exception counts as a violation
candidate ('holds for any subset and any order')."""
import itertools

import numpy as np

from ..symnp import affine as af
from ..symnp import kindl

PID = "C10"


def selections(nz, tier):
    nodes = list(range(nz))
    out = []
    maxk = min(nz, 4 if tier == "quick" else 5)
    for k in range(1, maxk + 1):
        out += [list(p) for p in itertools.permutations(nodes, k)]
    return out


def jobs(tier, seed):
    out = []
    base = [
        dict(ny=3, nx=4, dx=10.0, dy=12.0, pid="P2", n=3, halo=0.0, modes=(4, 2), precision="double"),
        dict(ny=2, nx=3, dx=12.0, dy=9.0, pid="P3", n=2, halo=13.1, modes=(6, 8), precision="single"),
        dict(ny=3, nx=3, dx=11.0, dy=10.0, pid="P1", n=3, halo=0.0, modes=(4, 4), precision="double", analytic=True),
        dict(ny=2, nx=4, dx=10.0, dy=13.0, pid="P1", n=3, halo=None, modes=(8, 6), precision="double", analytic=True),
    ]
    if tier == "thorough":
        base += [
            dict(ny=4, nx=3, dx=10.0, dy=12.0, pid="P2", n=4, halo=0.0, modes=(4, 4), precision="double"),
            dict(ny=3, nx=3, dx=11.0, dy=10.0, pid="P1", n=4, halo=15.0, modes=(4, 4), precision="double", analytic=True),
            dict(ny=3, nx=2, dx=12.0, dy=9.0, pid="P5", n=2, halo=0.0, modes=(2, 2), precision="double"),
        ]
    for b in base:
        b["seed"] = seed
        z, prof = kindl.profiles(b["pid"], b["n"], seed=seed)
        nz = len(z)
        if nz > 5 and tier == "quick":
            nzsel = 5
        else:
            nzsel = min(nz, 6)
        sel = selections(nzsel, tier)
        if nz > nzsel:  # always include the real top node
            sel += [[nz - 1], [nz - 1, 0], [0, nz - 1], [1, nz - 1, 0], [nz - 1, 2, 1]]
        for fp in (False, True):
            chunk = 48
            for i in range(0, len(sel), chunk):
                out.append(dict(b, fp=fp, sel=sel[i:i + chunk], nz=nz, levels=[0]))
    return out


ARGKINDS = ["list", "ndarray", "int64_array"]  # tuples are not among the argument kinds the property names


def as_arg(levels, kind):
    if kind == "ndarray":
        return np.array(levels)
    if kind == "tuple":
        return tuple(levels)
    if kind == "int64_array":
        return np.array(levels, dtype=np.int64)
    return list(levels)


def body(run, sym, sc):
    sp = sym.sp
    ny, nx = sc["ny"], sc["nx"]
    z, prof = kindl.profiles(sc["pid"], sc["n"], seed=sc["seed"])
    q = sym.field((ny, nx))
    bg = sym.var("bg")
    kw = dict(analytic=sc.get("analytic", False), zprof=(z, prof))
    if sc["fp"]:
        kw.update(footprint=True, meas_pt=(sc["dx"], sc["dy"] * (ny - 1)), srf_bg_conc=bg)
    else:
        kw.update(srf_bg_conc=bg)
    nz = len(z)
    used = sorted({l for s in sc["sel"] for l in s})
    single = {}
    for l in used:
        g, c, f = kindl.sym_solve(sym, sc, q, levels=l, **kw)
        single[l] = (np.asarray(c), np.asarray(f), g)
        if np.shape(c) != (ny, nx):
            run.cex.append(dict(scenario=dict(sc, sel=None, levels=l), obligation="single_level_shape", shape=list(np.shape(c))))
    g, cfull, ffull = kindl.sym_solve(sym, sc, q, levels=list(range(nz)), **kw)
    cfull, ffull = np.reshape(cfull, (nz, ny, nx)), np.reshape(ffull, (nz, ny, nx))
    for si, lv in enumerate(sc["sel"]):
        kind = ARGKINDS[si % len(ARGKINDS)]
        arg = as_arg(lv, kind)
        if len(lv) == 1 and si % 2 == 0:
            arg = [np.int64(lv[0]), int(lv[0])][si % 4 // 2]  # scalar forms
            kind = "scalar"
        scn = {k: v for k, v in sc.items() if k != "sel"}
        scn.update(levels=list(lv), argkind=kind)
        try:
            g, c, f = kindl.sym_solve(sym, sc, q, levels=arg, **kw)
        except af.NonAffine:
            raise
        except Exception as e:
            run.queries["sat"] += 1
            run.ob("no_exception")["queries"] += 1
            run.ob("no_exception")["sat"] += 1
            run.cex.append(dict(scenario=scn, obligation="no_exception", error="%s: %s" % (type(e).__name__, e)))
            continue
        nl = len(lv)
        c = np.reshape(c, (nl, ny, nx))
        f = np.reshape(f, (nl, ny, nx))
        Z = np.reshape(np.asarray(g[2], float), (nl, ny, nx))
        want_single_c = np.array([single[l][0] for l in lv], dtype=object).reshape(nl, ny, nx)
        want_single_f = np.array([single[l][1] for l in lv], dtype=object).reshape(nl, ny, nx)
        for name, a, b in (
            ("slice_equals_single_level_conc", c, want_single_c),
            ("slice_equals_single_level_flux", f, want_single_f),
            ("slice_equals_full_column_conc", c, cfull[list(lv)]),
            ("slice_equals_full_column_flux", f, ffull[list(lv)]),
        ):
            vals = kindl.forms_equal(run, sp, a, b, name, scn)
            if vals is not None:
                run.cex.append(dict(scenario=scn, obligation=name, q=kindl.field_from_model(vals, (ny, nx)).tolist(), bg=vals.get("bg", 0.0)))
        # height coordinate (concrete): decided as a (trivial) query as well
        zz = np.array([z[l] for l in lv])[:, None, None] * np.ones((1, ny, nx))
        vals = kindl.forms_equal(run, sp, Z, zz, "height_coordinate", scn, scale=float(z[-1]))
        if vals is not None:
            run.cex.append(dict(scenario=scn, obligation="height_coordinate"))
    run.sample(dict(scenario={k: v for k, v in sc.items() if k != "sel"}, selections=len(sc["sel"]), first=sc["sel"][:3]), cap=4)


def worker(sc):
    return kindl.guarded_worker(PID, body, sc)


def replay(rec):
    sc = rec["scenario"]
    ob = rec["obligation"]
    ny, nx = sc["ny"], sc["nx"]
    tol = kindl.REPLAY_TOL[sc["precision"]]
    rng = np.random.default_rng(2)
    q = np.array(rec["q"], float) if "q" in rec else rng.standard_normal((ny, nx))
    bg = float(rec.get("bg", 0.3))
    z, prof = kindl.profiles(sc["pid"], sc["n"], seed=sc.get("seed", 0))
    kw = dict(analytic=sc.get("analytic", False), zprof=(z, prof), srf_bg_conc=bg)
    if sc["fp"]:
        kw.update(footprint=True, meas_pt=(sc["dx"], sc["dy"] * (ny - 1)))
    lv = sc["levels"]
    out = dict(obligation=ob, levels=lv)
    if ob == "single_level_shape":
        g, c, f = kindl.real_solve(sc, q, levels=lv, **kw)
        out.update(shape=list(np.shape(c)), confirmed=bool(np.shape(c) != (ny, nx)))
        return out
    arg = as_arg(lv, sc.get("argkind", "list")) if sc.get("argkind") != "scalar" else int(lv[0])
    try:
        g, c, f = kindl.real_solve(sc, q, levels=arg, **kw)
    except Exception as e:
        out.update(error="%s: %s" % (type(e).__name__, e), confirmed=True)
        return out
    nl = len(lv)
    c, f = np.reshape(c, (nl, ny, nx)), np.reshape(f, (nl, ny, nx))
    Z = np.reshape(g[2], (nl, ny, nx))
    worst = 0.0
    nz = len(z)
    g2, cf, ff = kindl.real_solve(sc, q, levels=list(range(nz)), **kw)
    cf, ff = np.reshape(cf, (nz, ny, nx)), np.reshape(ff, (nz, ny, nx))
    for k, l in enumerate(lv):
        g1, c1, f1 = kindl.real_solve(sc, q, levels=int(l), **kw)
        worst = max(worst, kindl.rel_err(c[k], c1), kindl.rel_err(f[k], f1), kindl.rel_err(c[k], cf[l]), kindl.rel_err(f[k], ff[l]),
                    float(np.abs(Z[k] - z[l]).max() / z[-1]))
    out.update(max_rel_discrepancy=worst, tolerance=tol, confirmed=bool(worst > tol))
    return out


CANARIES = [
    ("running_counter", {"solver": [("""        for k in range(nlvls):
            if levels[k] == i:
                fftp[k, ...] = fftpi
                fftq[k, ...] = fftqi
""", """        if i in levels:
            fftp[lvl, ...] = fftpi
            fftq[lvl, ...] = fftqi
            lvl += 1
"""), ("    nz = len(z)\n    dz = np.diff(z)\n\n    # Initialize arrays", "    nz = len(z)\n    dz = np.diff(z)\n    lvl = 0\n\n    # Initialize arrays")]}),
    ("heights_sorted", {"solver": [('Z, Y, X = np.meshgrid(z[levels], y, x, indexing="ij")', 'Z, Y, X = np.meshgrid(np.sort(z[levels]), y, x, indexing="ij")')]}),
    ("analytic_mean_first_level_only", {"solver": [("tfftp[:, 0, 0] = p000 - tfftq0[0, 0] * Kzinv * h", "tfftp[:, 0, 0] -= tfftq0[0, 0] * Kzinv * h")]}),
    ("mean_mode_top_node_missed", {"solver": [("            if levels[k] == nz - 1:\n                tfftp[k, 0, 0] = tfftp00", "            if levels[k] == nz:\n                tfftp[k, 0, 0] = tfftp00")]}),
]


def canary_probe(sym, sc):
    return kindl.probe_body(PID, body, sym, sc)


def main(run):
    run.explanation = (
        "Symbolic execution of the solver on affine forms for EVERY ordered selection of distinct levels of a "
        "small vertical grid (exhaustive up to 4 (quick) / 5 (thorough) levels), list/ndarray/scalar "
        "arguments, footprint and dispersion, numerical and analytic: z3 decides that slice k is the same "
        "linear form as the single-level solve for levels[k] and as slice levels[k] of the full-column solve, "
        "for all source fields and backgrounds; the height coordinate of slice k is z[levels[k]]."
    )
    run.assumptions = [
        "real arithmetic with the production doubles as coefficients; tolerance 1e-9 of the largest coefficient",
        "pyfftw = mathematical DFT; numba preserves Python semantics (in particular `levels[k] == i` on lists/arrays)",
        "distinct levels only (the property speaks of subsets); negative indices are outside the claim",
    ]
    kindl.validate_encoding(run)
    js = jobs(run.tier, run.seed)
    run.bounds = dict(vertical_nodes=sorted({j["nz"] for j in js}), selections=sum(len(j["sel"]) for j in js),
                      grids=sorted({(j["ny"], j["nx"]) for j in js}), arg_kinds=ARGKINDS + ["scalar"],
                      exhaustive_orderings="all permutations of all subsets up to size 4 (quick) / 5 (thorough) of the first 5-6 nodes, plus selections with the real top node",
                      outside="larger vertical grids (the bookkeeping has no size-dependent branch), repeated levels, negative indices")
    cex = run.pmap(worker, js)
    kindl.handle_cex(run, PID, cex, replay)
    pick = [dict(j, sel=[[2, 0, 1], [3, 1], [0, 1, 2], [1, 3, 0, 2]]) for j in js if j["nz"] == 4][:1]
    pick += [dict(j, sel=[[2, 0, 1], [3, 1], [1, 3, 0, 2]]) for j in js if j.get("analytic")][:1]
    kindl.run_canaries(run, "vf.props.C10:canary_probe", CANARIES, pick)
