"""./check <id> [--tier quick|thorough] [--replay <file>]"""
import argparse
import atexit
import importlib
import json
import os
import shutil
import sys
import tempfile


def main(argv=None):
    ap = argparse.ArgumentParser(prog="check")
    ap.add_argument("pid")
    ap.add_argument("--tier", choices=["quick", "thorough"], default=None)
    ap.add_argument("--replay", default=None)
    a = ap.parse_args(argv)
    if a.tier:
        os.environ["VERIF_TIER"] = a.tier
    os.environ.setdefault("VERIF_TIER", "quick")
    if os.environ["VERIF_TIER"] not in ("quick", "thorough"):
        os.environ["VERIF_TIER"] = "quick"
    replay_path = os.path.abspath(a.replay) if a.replay else None
    # scratch cwd: the real package drops fftw_wisdom.pkl / logs / plots into cwd
    scratch = tempfile.mkdtemp(prefix="vf_%s_" % a.pid)
    atexit.register(shutil.rmtree, scratch, True)
    os.chdir(scratch)
    import logging

    logging.disable(logging.CRITICAL)
    from . import core

    try:
        mod = importlib.import_module("vf.props." + a.pid)
    except ModuleNotFoundError:
        print("no check for property %s" % a.pid)
        return core.EXIT_HARNESS
    if replay_path:
        with open(replay_path) as f:
            rec = json.load(f)
        res = mod.replay(rec)
        print(json.dumps(res, indent=1, default=str))
        if res.get("confirmed"):
            print("VIOLATION property=%s replay=%s" % (a.pid, replay_path))
            return core.EXIT_VIOLATION
        return core.EXIT_OK
    return core.run_property(a.pid, mod.main)


if __name__ == "__main__":
    code = main()
    sys.stdout.flush()
    sys.stderr.flush()
    # the real package registers an atexit hook that can raise at shutdown
    # (pyfftw cache thread); leave through os._exit after our own cleanup
    try:
        atexit._run_exitfuncs()
    except Exception:
        pass
    os._exit(code)
