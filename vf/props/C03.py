"""C03 - level-by-level conservation, footprint weights sum to one, halo ==
explicit zero padding.  Kind L (see C02 for the encoding)."""
import functools

import numpy as np
import z3

from ..symnp import affine as af
from ..symnp import kindl

PID = "C03"


def resistance_bracket(z, Kz, lv):
    dz = np.diff(z)
    inv = 1.0 / np.asarray(Kz, float)
    lo = float(np.sum(dz[:lv] * np.minimum(inv[:-1], inv[1:])[:lv]))
    hi = float(np.sum(dz[:lv] * np.maximum(inv[:-1], inv[1:])[:lv]))
    return lo, hi


def body(run, sym, sc):
    sp = sym.sp
    akw = dict(analytic=True) if sc.get("analytic") else {}
    ny, nx = sc["ny"], sc["nx"]
    N = ny * nx
    z, prof = kindl.profiles(sc["pid"], sc["n"], seed=sc["seed"])
    q = sym.field((ny, nx))
    bg = sym.var("bg")
    sc0 = dict(sc, halo=0.0)
    nl = len(sc["levels"])
    # (a), (b): whole periodic domain observed with halo = 0
    g, c, f = kindl.sym_solve(sym, sc0, q, srf_bg_conc=bg, **akw)
    c, f = kindl.lv3(c, sc), kindl.lv3(f, sc)
    meanq = np.sum(q) / N
    lhs = np.array([np.sum(f[k]) / N for k in range(nl)], dtype=object)
    rhs = np.array([meanq for k in range(nl)], dtype=object)
    scn = dict(sc0, part="a")
    vals = kindl.forms_equal(run, sp, lhs, rhs, "mean_flux_conserved", scn)
    if vals is not None:
        run.cex.append(dict(scenario=scn, obligation="mean_flux_conserved", q=kindl.field_from_model(vals, (ny, nx)).tolist(), bg=vals.get("bg", 0.0)))
    # (b) mean conc = bg - mean(q) * R_k; the increments of R between consecutive
    # requested levels lie inside the left/right Riemann bracket of int dz/Kz
    # over those layers (accepts trapezoid, midpoint, exact; per layer group)
    C = af.coeffs(np.array([np.sum(c[k]) / N for k in range(nl)], dtype=object), sp)
    jbg = sp.names.index("bg")
    qidx = [j for j, n in enumerate(sp.names) if n.startswith("q_")]
    order = sorted(range(nl), key=lambda k: sc["levels"][k])
    s = z3.Solver()
    Rs = [z3.Real("R_%d" % k) for k in range(nl)]
    hi_tot = resistance_bracket(z, prof[4], max(sc["levels"]))[1]
    tol = kindl.TOL_FLOAT * max(hi_tot, 1.0)
    ok = True
    prev_lv, prev_R = 0, z3.RealVal(0)
    brackets = []
    for k in order:
        lv = sc["levels"][k]
        lo0, hi0 = resistance_bracket(z, prof[4], prev_lv)
        lo1, hi1 = resistance_bracket(z, prof[4], lv)
        lo, hi = lo1 - lo0, hi1 - hi0
        brackets.append([prev_lv, lv, lo, hi])
        s.add(Rs[k] - prev_R >= af._q(lo) - af._q(tol), Rs[k] - prev_R <= af._q(hi) + af._q(tol))
        row = C[k]
        ok = ok and abs(row[jbg].real - 1.0) <= 1e-9 and abs(row[0]) <= 1e-9 * max(1.0, hi_tot) and np.abs(row.imag).max() <= 1e-9
        for j in qidx:
            d = af._q(row[j].real) + Rs[k] / N
            s.add(d <= af._q(tol / N), d >= -af._q(tol / N))
        prev_lv, prev_R = lv, Rs[k]
    s.add(z3.BoolVal(bool(ok)))
    scn = dict(sc0, part="b", brackets=brackets)
    r = run.solve(s, "mean_conc_resistance(existence: sat=holds)", scn)
    # existence query: sat means resistances inside the brackets explain the forms;
    # keep the global tally meaning 'sat = counterexample found'
    if r == "unsat":
        run.queries["unsat"] -= 1
        run.queries["sat"] += 1
        run.cex.append(dict(scenario=scn, obligation="mean_conc_resistance", q=(np.ones((ny, nx))).tolist(), bg=0.5))
    elif r == "sat":
        run.queries["sat"] -= 1
        run.queries["unsat"] += 1
    # (c) footprint weights sum to one for a continuous tower position
    xm, ym = sym.var("xm"), sym.var("ym")
    g, cf, ff = kindl.sym_solve(sym, sc0, q, footprint=True, meas_pt=(xm, ym), **akw)
    ff = kindl.lv3(ff, sc)
    lhs = np.array([np.sum(ff[k]) for k in range(nl)], dtype=object)
    rhs = np.array([1.0 + 0 * xm for k in range(nl)], dtype=object)
    scn = dict(sc0, part="c")
    vals = kindl.forms_equal(run, sp, lhs, rhs, "footprint_sums_to_one", scn, scale=1.0)
    if vals is not None:
        run.cex.append(dict(scenario=scn, obligation="footprint_sums_to_one"))
    # (d) halo == explicit padding + crop
    if sc["halo"] != 0.0:
        nxe, nye, px, py = kindl.padded(sc)
        g, c1, f1 = kindl.sym_solve(sym, sc, q, srf_bg_conc=bg, **akw)
        qp = np.pad(q, ((py, py), (px, px)), mode="constant", constant_values=0.0).view(af.SymArr)
        scp = dict(sc, halo=0.0, ny=nye, nx=nxe)
        g, c2, f2 = kindl.sym_solve(sym, scp, qp, srf_bg_conc=bg, **akw)
        c1, f1 = kindl.lv3(c1, sc), kindl.lv3(f1, sc)
        c2 = kindl.lv3(c2, scp, (nye, nxe))[:, py:nye - py, px:nxe - px]
        f2 = kindl.lv3(f2, scp, (nye, nxe))[:, py:nye - py, px:nxe - px]
        scn = dict(sc, part="d-dispersion", pad=[py, px])
        for name, a, b in (("halo_equals_padding_flux", f1, f2), ("halo_equals_padding_conc", c1, c2)):
            vals = kindl.forms_equal(run, sp, a, b, name, scn)
            if vals is not None:
                run.cex.append(dict(scenario=scn, obligation=name, q=kindl.field_from_model(vals, (ny, nx)).tolist(), bg=vals.get("bg", 0.0)))
        g, c1, f1 = kindl.sym_solve(sym, sc, q, footprint=True, meas_pt=(xm, ym), **akw)
        g, c2, f2 = kindl.sym_solve(sym, scp, qp, footprint=True, meas_pt=(xm + px * sc["dx"], ym + py * sc["dy"]), **akw)
        c1, f1 = kindl.lv3(c1, sc), kindl.lv3(f1, sc)
        c2 = kindl.lv3(c2, scp, (nye, nxe))[:, py:nye - py, px:nxe - px]
        f2 = kindl.lv3(f2, scp, (nye, nxe))[:, py:nye - py, px:nxe - px]
        scn = dict(sc, part="d-footprint", pad=[py, px])
        for name, a, b in (("halo_equals_padding_fp_flux", f1, f2), ("halo_equals_padding_fp_conc", c1, c2)):
            vals = kindl.forms_equal(run, sp, a, b, name, scn)
            if vals is not None:
                run.cex.append(dict(scenario=scn, obligation=name))
    run.sample(dict(scenario=sc, variables=sp.dim - 1, phase_variables=len(sp.phase) * 2,
                    obligations=["mean_flux_conserved", "mean_conc_resistance", "footprint_sums_to_one", "halo_equals_padding_*"]), cap=3)


worker = functools.partial(kindl.guarded_worker, PID, body)


def _positions(sc):
    dx, dy = sc["dx"], sc["dy"]
    return [(0.37 * dx, 0.61 * dy), (1.73 * dx, 0.29 * dy), ((sc["nx"] - 0.5) * dx, (sc["ny"] - 0.41) * dy)]


def replay(rec):
    sc = rec["scenario"]
    akw = dict(analytic=True) if sc.get("analytic") else {}
    ob = rec["obligation"]
    ny, nx = (sc["ny"], sc["nx"])
    prec = sc["precision"]
    tol = kindl.REPLAY_TOL[prec]
    rng = np.random.default_rng(7)
    q = np.array(rec["q"], float) if "q" in rec else rng.standard_normal((ny, nx))
    bg = float(rec.get("bg", 0.3))
    z, prof = kindl.profiles(sc["pid"], sc["n"], seed=sc.get("seed", 0))
    out = {"obligation": ob}
    worst = 0.0
    if ob == "mean_flux_conserved":
        g, c, f = kindl.real_solve(sc, q, srf_bg_conc=bg, **akw)
        f = kindl.lv3(f, sc)
        m = [float(f[k].mean()) for k in range(len(sc["levels"]))]
        worst = max(abs(v - q.mean()) for v in m) / max(abs(q).max(), 1e-300)
        out.update(mean_flux=m, mean_source=float(q.mean()))
    elif ob == "mean_conc_resistance":
        g, c, f = kindl.real_solve(sc, q, srf_bg_conc=bg, **akw)
        c = kindl.lv3(c, sc)
        g, c2, f2 = kindl.real_solve(sc, q, srf_bg_conc=bg + 1.0, **akw)
        c2 = kindl.lv3(c2, sc)
        R = {0: 0.0}
        for k, lv in enumerate(sc["levels"]):
            R[lv] = (bg - float(c[k].mean())) / q.mean()
            worst = max(worst, abs(float(c2[k].mean() - c[k].mean()) - 1.0))
        obs = []
        for a, b, lo, hi in sc["brackets"]:
            inc = R[b] - R[a]
            obs.append([a, b, inc, lo, hi])
            worst = max(worst, max(lo - inc, inc - hi, 0.0) / max(hi, 1e-12))
        out.update(resistance_increments=obs)
    elif ob == "footprint_sums_to_one":
        sums = []
        for pos in _positions(sc):
            g, c, f = kindl.real_solve(sc, q, footprint=True, meas_pt=pos, **akw)
            sums.append([float(s.sum()) for s in kindl.lv3(f, sc)])
        out.update(sums=sums)
        worst = float(np.abs(np.array(sums) - 1.0).max())
    else:
        nxe, nye, px, py = kindl.padded(sc)
        qp = np.pad(q, ((py, py), (px, px)))
        scp = dict(sc, halo=0.0, ny=nye, nx=nxe)
        fp = "fp" in ob
        for pos in (_positions(sc) if fp else [(0.0, 0.0)]):
            kw1 = dict(footprint=True, meas_pt=pos) if fp else dict(srf_bg_conc=bg)
            kw2 = dict(footprint=True, meas_pt=(pos[0] + px * sc["dx"], pos[1] + py * sc["dy"])) if fp else dict(srf_bg_conc=bg)
            g, c1, f1 = kindl.real_solve(sc, q, **kw1, **akw)
            g, c2, f2 = kindl.real_solve(scp, qp, **kw2, **akw)
            c1, f1 = kindl.lv3(c1, sc), kindl.lv3(f1, sc)
            c2 = kindl.lv3(c2, scp, (nye, nxe))[:, py:nye - py, px:nxe - px]
            f2 = kindl.lv3(f2, scp, (nye, nxe))[:, py:nye - py, px:nxe - px]
            worst = max(worst, kindl.rel_err(f1, f2), kindl.rel_err(c1 - (0 if fp else bg), c2 - (0 if fp else bg)))
    out["max_rel_discrepancy"] = worst
    out["tolerance"] = tol
    out["confirmed"] = bool(worst > tol)
    return out


CANARIES = [
    ("mean_mode_not_copied", {"solver": [("tfftq[:, 0, 0] = tfftq0[0, 0]", "tfftq[0, 0, 0] = tfftq0[0, 0]")]}),
    ("trapezoid_to_dz0", {"solver": [("tfftq0[0, 0] * dz[i] * (0.5 / Kz[i] + 0.5 / Kz[i + 1])", "tfftq0[0, 0] * dz[0] * (0.5 / Kz[i] + 0.5 / Kz[i + 1])")]}),
    ("unit_source_norm", {"solver": [("/ nxe / nye", "/ nx / ny")]}),
    ("shift_uses_halo", {"solver": [("xm + px * dx", "xm + halo")]}),
    ("crop_offset", {"solver": [("conc = p[:, py : nye - py, px : nxe - px]", "conc = p[:, py : nye - py, px + 0 : nxe - px]"), ("flx = q[:, py : nye - py, px : nxe - px]", "flx = q[:, py - 1 + 1 : nye - py, 0 : nx]")]}),
]


def canary_probe(sym, sc):
    return kindl.probe_body(PID, body, sym, sc)


def main(run):
    run.explanation = (
        "Symbolic execution of the solver on affine forms: (a) the domain mean of the flux at every level "
        "is the same linear form as the mean of the symbolic source; (b) the domain-mean concentration is "
        "1*background - R_k*mean(source) with z3 finding R_k inside the left/right Riemann bracket of "
        "int dz/Kz; (c) with a CONTINUOUS symbolic tower position (per-mode phase variables) the footprint "
        "sums to one; (d) halo=h equals explicit zero padding by int(h/dx), int(h/dy) cells with halo=0, "
        "cropped, in dispersion mode (symbolic source) and footprint mode (symbolic continuous tower)."
    )
    run.assumptions = [
        "real arithmetic with the production doubles as coefficients; tolerance 1e-9 of the largest coefficient",
        "pyfftw = mathematical DFT; numba preserves Python semantics",
        "independent phase variables (C,S) in [-1,1] over-approximate exp(i(k xm + l ym)): a proof transfers, a sat answer is replayed at three generic off-grid positions",
        "any resistance quadrature between the left and right Riemann sums is accepted",
        "profiles restricted to the listed concrete families; shooting growth <= 12 (quick) / 14 (thorough)",
    ]
    kindl.validate_encoding(run)
    scs = kindl.base_scenarios(run.tier, run.seed)
    # the closed-form (analytic) path obeys the same conservation laws: uniform profiles P1
    ana = [dict(s_, pid="P1", analytic=True) for s_ in scs if s_["pid"] in ("P1", "P2")]
    scs = scs + ana
    run.bounds = dict(analytic_scenarios=len(ana), grids=sorted({(s["ny"], s["nx"]) for s in scs}), profiles=sorted({s["pid"] for s in scs}),
                      layers=sorted({s["n"] for s in scs}), scenarios=len(scs),
                      outside="grids > 8x8, > 9 layers, other profile families, rounding")
    cex = run.pmap(worker, scs)
    kindl.handle_cex(run, PID, cex, replay)
    cscs = kindl.base_scenarios("quick", 0)
    pick = [s for s in cscs if s["halo"] not in (None, 0.0) and len(s["levels"]) > 2 and s["pid"] == "P2"][:1]
    pick += [s for s in cscs if s["halo"] not in (None, 0.0) and len(s["levels"]) > 1 and s["pid"] != "P2"][:1]
    kindl.run_canaries(run, "vf.props.C03:canary_probe", CANARIES, pick)
