#!/bin/sh
# Build the tooling overlay venv for the checks (offline, idempotent).
# /verif/.venv = a venv of /venv's interpreter that *sees* /venv's site-packages
# (numpy, scipy, numba, pyfftw, xarray ...) through a .pth file and adds
# crosshair-tool, z3-solver, mpmath, sympy from the offline wheelhouse.
set -e
HERE="$(cd "$(dirname "$0")" && pwd)"
VENV="$HERE/.venv"
STAMP="$VENV/.ok"
if [ -f "$STAMP" ] && "$VENV/bin/python" -c "import z3, crosshair, mpmath, sympy, numpy" >/dev/null 2>&1; then
    exit 0
fi
# serialise concurrent first-time builds (checks may be started in parallel)
LOCK="$HERE/.venv.lock"
exec 9>"$LOCK"
flock 9
if [ -f "$STAMP" ] && "$VENV/bin/python" -c "import z3, crosshair, mpmath, sympy, numpy" >/dev/null 2>&1; then
    exit 0
fi
rm -rf "$VENV"
/venv/bin/python -m venv "$VENV"
SP="$("$VENV/bin/python" -c 'import sysconfig; print(sysconfig.get_paths()["purelib"])')"
echo "import site; site.addsitedir('/venv/lib/python3.12/site-packages')" > "$SP/_overlay.pth"
PIP_NO_INDEX=1 "$VENV/bin/pip" install -q --no-index --find-links /opt/veriftools/wheels \
    crosshair-tool z3-solver mpmath sympy jsonschema >/dev/null
"$VENV/bin/python" -c "import z3, crosshair, mpmath, sympy, numpy, scipy"
touch "$STAMP"
