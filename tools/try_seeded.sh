#!/bin/bash
# tools/try_seeded.sh <seeded dir name> <property id> [tier]: apply the seeded change to /repo, run the check, undo.
S=/verif/seeded/$1/patch.diff; P=$2; T=${3:-quick}
cd /repo && git diff --quiet || { echo "/repo not clean"; exit 2; }
git -C /repo apply $S || exit 2
cd /verif && ./check $P --tier $T > /tmp/try_$1_$P.log 2>&1; RC=$?
git -C /repo checkout -- .
echo "$1 on $P ($T): exit=$RC  $(grep -c '^VIOLATION' /tmp/try_$1_$P.log) VIOLATION lines; $(grep -E '^\[' /tmp/try_$1_$P.log | tail -1)"
