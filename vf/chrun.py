"""Engine B runner: CrossHair (symbolic execution of Python with z3, per path)
on harness files whose conditions exercise the repository's own control-plane
functions.  One OS process per condition under a hard timeout.  Only
'Confirmed over all paths' counts as held; 'Not confirmed' / 'Unable to meet
precondition' are inconclusive; a counterexample is replayed concretely (plain
Python, fresh process) before it is reported."""
import concurrent.futures as cf
import os
import re
import subprocess
import sys
import time

from .core import REPO, VERIF

CROSSHAIR = os.path.join(os.path.dirname(sys.executable), "crosshair")


def materialise(template, subst, scratch):
    with open(template) as f:
        src = f.read()
    for k, v in subst.items():
        src = src.replace("{%s}" % k, str(v))
    name = "vfch_" + os.path.basename(template)
    path = os.path.join(scratch, name)
    with open(path, "w") as f:
        f.write(src)
    return path


def _env():
    env = dict(os.environ)
    pp = [os.path.join(REPO, "src"), VERIF]
    if env.get("PYTHONPATH"):
        pp.append(env["PYTHONPATH"])
    env["PYTHONPATH"] = os.pathsep.join(pp)
    env["PYTHONHASHSEED"] = "0"
    return env


def _line_of(path, fn):
    with open(path) as f:
        for i, l in enumerate(f, 1):
            if l.startswith("def %s(" % fn):
                return i
    raise KeyError(fn)


def _one(args):
    path, fn, timeout = args
    line = _line_of(path, fn)
    cmd = [CROSSHAIR, "check", "--report_all", "--per_condition_timeout", str(timeout), "%s:%d" % (path, line + 1)]
    t = time.time()
    try:
        p = subprocess.run(cmd, capture_output=True, text=True, timeout=timeout + 120, env=_env(), cwd=os.path.dirname(path))
        out = p.stdout + p.stderr
    except subprocess.TimeoutExpired as e:
        out = "TIMEOUT " + str(e)
    dt = time.time() - t
    verdict, detail = "unknown", out.strip()[-600:]
    if "Confirmed over all paths" in out:
        verdict = "confirmed"
    else:
        m = re.search(r"error: (.*) when calling (\w+\(.*\))(?: \(which returns .*\))?\s*$", out, re.M)
        if m:
            call = re.sub(r"\s*\(which returns .*\)\s*$", "", m.group(2))
            verdict, detail = "refuted", {"message": m.group(1), "call": call}
        elif "error:" in out:
            m2 = re.search(r"error: (.*)$", out, re.M)
            verdict, detail = "refuted", {"message": m2.group(1) if m2 else out[-300:], "call": None}
    return fn, verdict, detail, dt


def replay_call(path, call):
    """Run the counterexample concretely in a fresh process -> (violates, info)"""
    mod = os.path.splitext(os.path.basename(path))[0]
    code = (
        "import sys, logging; logging.disable(logging.CRITICAL); sys.path.insert(0, %r)\n"
        "import %s as M\n"
        "from %s import *\n"
        "code = compile(%r, '<counterexample>', 'eval')\n"
        "try:\n"
        "    r = eval(code, vars(M))\n"
        "    print('RESULT', repr(r))\n"
        "except Exception as e:\n"
        "    print('RAISED', type(e).__name__, e)\n" % (os.path.dirname(path), mod, mod, call)
    )
    try:
        p = subprocess.run([sys.executable, "-c", code], capture_output=True, text=True, timeout=600, env=_env(), cwd=os.path.dirname(path))
    except subprocess.TimeoutExpired:
        return False, "replay timed out"
    out = p.stdout
    if "RAISED" in out:
        return True, out.strip().splitlines()[-1]
    if "RESULT False" in out:
        return True, "returns False"
    return False, (out + p.stderr)[-400:]


def run_conditions(run, template, subst, conditions, twins, timeout, pid, describe=None):
    """-> list of (condition, replay record) for refuted conditions whose
    counterexample reproduces"""
    scratch = os.getcwd()
    path = materialise(template, subst, scratch)
    with open(template) as f:
        run.encode("verif.harness", os.path.basename(template), f.read())
    jobs = [(path, fn, timeout) for fn in list(conditions) + list(twins)]
    found = []
    with cf.ThreadPoolExecutor(max_workers=min(16, len(jobs))) as pool:
        for fn, verdict, detail, dt in pool.map(_one, jobs):
            run.solver_s += dt
            if fn in twins:
                run.twins["total"] += 1
                if verdict == "refuted":
                    run.twins["sat"] += 1
                else:
                    run.errors.append("reachability twin %s was not refuted (%s): %s" % (fn, verdict, str(detail)[:300]))
                continue
            o = run.ob(fn)
            o["queries"] += 1
            run.nontrivial.add((fn, "crosshair"))
            if verdict == "confirmed":
                run.queries["unsat"] += 1
                o["unsat"] += 1
            elif verdict == "refuted":
                run.queries["sat"] += 1
                o["sat"] += 1
                found.append((fn, detail))
            else:
                run.queries["unknown"] += 1
                o["unknown"] += 1
                run.inconclusive.append({"obligation": fn, "detail": str(detail)[-300:]})
            run.sample({"condition": fn, "verdict": verdict, "seconds": round(dt, 1),
                        "what": (describe or {}).get(fn, "")}, cap=20)
    out = []
    for fn, detail in found:
        call = detail.get("call") if isinstance(detail, dict) else None
        if call is None:
            run.errors.append("CrossHair reported an error without a call for %s: %s" % (fn, detail))
            continue
        ok, info = replay_call(path, call)
        rec = dict(property=pid, obligation=fn, call=call, message=detail.get("message"), harness=os.path.basename(template),
                   subst=subst, replay=dict(confirmed=ok, info=info),
                   cmd="./check %s --replay <this file>" % pid)
        out.append((fn, rec, ok))
    return out


def replay_record(rec, template_dir):
    import tempfile

    scratch = tempfile.mkdtemp(prefix="vfch_")
    path = materialise(os.path.join(template_dir, rec["harness"]), rec.get("subst", {}), scratch)
    ok, info = replay_call(path, rec["call"])
    return dict(confirmed=ok, info=info, call=rec["call"])
