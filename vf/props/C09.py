"""C09 - closure profiles are self-consistent with similarity theory and the
grid.

Kind U, exact arithmetic.  The repository's pbl_model.vertical_profiles, psi,
phi and the reference model's _phiM / _phiC / _psiM are executed with
z_m, z0 | ustar, (um, vm), mol (sign split), prsc, tke symbolic reals;
exp / log / sqrt / pow / atan are uninterpreted functions constrained by
instantiated laws; the layer count is concrete and the length of np.arange is
split over its admissible values by the path explorer (longer grids are cut at
a stated cap).  Assumed: 0 < z0 < z_m, |wind| > 0, a positive friction
velocity - the physically consistent forcings of the quantifier.

Per closure (MOST / MOSTM / CONSTANT / OAAHOC), forcing (ustar or z0) and
stability sign, on every explored path z3 decides:
  z[0] = z0, z[n] = z_m; z strictly increasing wherever the mapped coordinate is
  valid; z[-1] >= domain height (uncut paths); (u[n], v[n]) = (um, vm);
  u[i] vm = v[i] um for all i; Kz > 0 and Kz phi_h(z/L) prsc = kappa u* z with
  phi_h written independently (1 + 5x | (1 - 16x)^(-1/2)); the MOSTM split
  Kx = K v^2/|u|^2, Ky = K u^2/|u|^2; deriving z0 from ustar and feeding it back
  as z0 returns term-identical grids and profiles.
Stability functions: psi(0) = 0, phi(0) = 1, both branch formulas agree at 0;
x psi'(x) = phi_m(x) - 1 with phi_m = 1 + 5x (x > 0), (1 - 16x)^(-1/4) (x < 0),
obtained by running the REAL psi on dual numbers (value, derivative);
phi == _phiC, psi == _psiM, phi = _phiM^2 (x < 0) against the reference copies.
Interpretation: 'the flux-gradient function' integrated by psi is the momentum
function (the standard Businger-Dyer pairing)."""
from fractions import Fraction as F

import os

import numpy as np
import z3

from ..core import HarnessError
from ..symnp import exact as ex
from ..symnp.loader import Loader

PID = "C09"
KAP = ex.R(F(2, 5))


def load(patch=None):
    env = ex.exact_env()
    env["patch"] = patch or {}
    L = Loader(env)
    return L, L.load("pbl_model"), L.load("ffm_kormann_meixner")


# ---------------------------------------------------------------------------
# dual numbers over exact reals (for x psi'(x))


class D:
    is_dual = True

    def __init__(self, v, d=0):
        self.v = v if isinstance(v, ex.R) else ex.R(v)
        self.d = d if isinstance(d, ex.R) else ex.R(d)

    @staticmethod
    def of(o):
        return o if isinstance(o, D) else D(o, 0)

    @staticmethod
    def ite(c, a, b):
        a, b = D.of(a), D.of(b)
        return D(ex.ite(c, a.v, b.v), ex.ite(c, a.d, b.d))

    def __add__(self, o):
        o = D.of(o)
        return D(self.v + o.v, self.d + o.d)

    __radd__ = __add__

    def __neg__(self):
        return D(-self.v, -self.d)

    def __sub__(self, o):
        return self + (-D.of(o))

    def __rsub__(self, o):
        return D.of(o) + (-self)

    def __mul__(self, o):
        o = D.of(o)
        return D(self.v * o.v, self.v * o.d + self.d * o.v)

    __rmul__ = __mul__

    def __truediv__(self, o):
        o = D.of(o)
        return D(self.v / o.v, (self.d * o.v - self.v * o.d) / (o.v * o.v))

    def __rtruediv__(self, o):
        return D.of(o) / self

    def __pow__(self, e):
        if isinstance(e, ex.R) and e.is_const():
            e = e.v
        e = F(e) if not isinstance(e, F) else e
        if e.denominator == 1 and 0 <= e <= 4:
            out = D(1, 0)
            for _ in range(int(e)):
                out = out * self
            return out
        return D(ex.upow(self.v, e), ex.R(e) * ex.upow(self.v, e - 1) * self.d)

    def __gt__(self, o):
        return self.v > D.of(o).v

    def __lt__(self, o):
        return self.v < D.of(o).v

    def __ge__(self, o):
        return self.v >= D.of(o).v

    def __le__(self, o):
        return self.v <= D.of(o).v

    def log(self):
        return D(ex.ulog(self.v), self.d / self.v)

    def arctan(self):
        return D(ex.uatan(self.v), self.d / (ex.R(1) + self.v * self.v))

    def exp(self):
        e = ex.uexp(self.v)
        return D(e, e * self.d)

    def sqrt(self):
        s = ex.usqrt(self.v)
        return D(s, self.d / (ex.R(2) * s))

    @property
    def real(self):
        return self


# ---------------------------------------------------------------------------


def phi_h_oracle(x):
    """independent flux-gradient function for scalars (heat / scalar form)"""
    stable = ex.R(1) + ex.R(5) * x
    unstable = ex.upow(ex.R(1) - ex.R(16) * x, F(-1, 2))
    return ex.ite(x > 0, stable, unstable) if isinstance(x > 0, ex.B) else (stable if (x > 0) else unstable)


def profile_case(pbl, closure, forcing, sign, n, grid_mode=None):
    """-> fn(ctx) for the path explorer.  grid_mode: None (stretch and domain height defaulted), or which of
    the two optional grid arguments is supplied as a symbolic value ('stretch', 'domain_height', 'both')"""

    def fn(c):
        zm, um, vm, mol, prsc = (c.real(k) for k in ("zm", "um", "vm", "mol", "prsc"))
        c.assume += [zm.v > 0, um.v * um.v + vm.v * vm.v > 0, prsc.v > 0]
        c.assume.append(mol.v > 0 if sign > 0 else mol.v < 0)
        kw = dict(mol=mol, prsc=prsc, closure=closure)
        info = dict(zm=zm, um=um, vm=vm, mol=mol, prsc=prsc)
        absum = ex.usqrt(um * um + vm * vm)
        if closure == "OAAHOC":
            ustar, tke = c.real("ustar"), c.real("tke")
            c.assume += [ustar.v > 0, tke.v > 0]
            kw.update(ustar=ustar, tke=tke)
            info.update(ustar=ustar, tke=tke)
        elif forcing == "ustar":
            ustar = c.real("ustar")
            c.assume.append(ustar.v > 0)
            kw.update(ustar=ustar)
            info.update(ustar=ustar)
        else:
            z0 = c.real("z0")
            c.assume += [z0.v > 0, z0.v < zm.v]
            # positive friction velocity: log(zm/z0) + psi(zm/L) > 0 (same applications as the code's)
            lg = np.log(zm / z0) if False else ex.ulog(zm / z0)
            ps = pbl.psi(zm / mol)
            c.assume.append(ex.zt(lg + ps) > 0)
            kw.update(z0=z0)
            info.update(z0=z0, ustar=absum * KAP / (lg + ps))
        if grid_mode in ("stretch", "both"):
            st = c.real("stretch")
            c.assume.append(st.v > 0)
            kw.update(stretch=st)
            info.update(h=st)
        if grid_mode in ("domain_height", "both"):
            dh = c.real("domain_height")
            c.assume.append(dh.v > zm.v)  # the domain contains the measurement height
            kw.update(domain_height=dh)
            info.update(zmx=dh)
        z, prof = pbl.vertical_profiles(n, zm, (um, vm), **kw)
        info.update(z=z, prof=prof, cut=getattr(c, "cap_hits", 0) > 0)
        return info

    return fn


def grid_obligations(c, pbl, info, closure, forcing, n):
    """-> dict name -> list of z3 'bad' conditions"""
    z, (u, v, Kx, Ky, Kz) = info["z"], info["prof"]
    z = np.ravel(z)
    u, v, Kx, Ky, Kz = (np.ravel(a) for a in (u, v, Kx, Ky, Kz))
    zm, um, vm, mol, prsc = (info[k] for k in ("zm", "um", "vm", "mol", "prsc"))
    L = len(z)
    ob = {}
    # documented defaults: stretch length and domain height are both twice the measurement height
    h = info.get("h", ex.R(2) * zm)
    zmx = info.get("zmx", ex.R(2) * zm)
    # z0 as the closure defines it
    absum = ex.usqrt(um * um + vm * vm)
    if closure == "OAAHOC":
        z0 = zm * ex.uexp(-(ex.R(F(856, 10000)) * ex.R(F(845, 1000)) * absum * ex.usqrt(info["tke"])) / (info["ustar"] * info["ustar"]))
    elif forcing == "ustar":
        z0 = zm * ex.uexp(-(KAP * absum) / info["ustar"] + pbl.psi(zm / mol))
    else:
        z0 = info["z0"]
    # post-hoc physical-consistency assumptions (they only prune paths)
    c.assume += [ex.zt(z0) > 0, ex.zt(z0) < zm.v]
    if L <= n:
        return {"grid_contains_measurement_height_at_index_n": [z3.BoolVal(True)]}, z0
    ob["grid_starts_at_roughness_length"] = [ex.neq(z[0], z0)]
    ob["measurement_height_at_index_n"] = [ex.neq(z[n], zm)]
    # strictly increasing wherever the mapped coordinate is valid (log argument positive)
    bb = zm / (ex.uexp(-z0 / h) - ex.uexp(-zm / h))
    aa = bb * ex.uexp(-z0 / h)
    dzeta = zm / n
    inc = []
    for i in range(L - 1):
        arg_next = -(dzeta * (i + 1) - aa) / bb
        inc.append(z3.And(ex.zt(arg_next) > 0, ex.zt(z[i]) >= ex.zt(z[i + 1])))
    ob["strictly_increasing"] = inc
    # (on a path that ends at the exploration cap the path condition asserts that the range stops there,
    # so its last node is the grid's last node as well)
    if (not info["cut"]) or info.get("h") is not None or info.get("zmx") is not None:
        arg_last = -(dzeta * (L - 1) - aa) / bb
        ob["reaches_domain_height"] = [z3.And(ex.zt(arg_last) > 0, ex.zt(z[L - 1]) < ex.zt(zmx))]
    ob["wind_vector_reproduced_at_measurement_height"] = [ex.neq(u[n], um), ex.neq(v[n], vm)]
    ob["wind_direction_constant_with_height"] = [ex.neq(u[i] * vm, v[i] * um) for i in range(L)]
    ustar = info.get("ustar")
    if closure in ("MOST", "MOSTM"):
        kbad = []
        for i in range(n + 1):
            x = z[i] / mol
            K = KAP * ustar * z[i] / phi_h_oracle(x) / prsc
            kbad.append(ex.neq(Kz[i], K))
            kbad.append(ex.zt(Kz[i]) <= 0)
            if closure == "MOSTM":
                den = u[i] * u[i] + v[i] * v[i]
                kbad.append(ex.neq(Kx[i] * den, K * v[i] * v[i]))
                kbad.append(ex.neq(Ky[i] * den, K * u[i] * u[i]))
            else:
                kbad += [ex.neq(Kx[i], K), ex.neq(Ky[i], K)]
        ob["diffusivity_positive_and_similarity_formula"] = kbad
    elif closure == "CONSTANT":
        Km = KAP * ustar * zm / prsc
        ob["diffusivity_positive_and_similarity_formula"] = [z3.Or(ex.neq(Kz[i], Km), ex.neq(Kx[i], Km), ex.neq(Ky[i], Km), ex.zt(Kz[i]) <= 0) for i in range(n + 1)]
    else:  # OAAHOC: K = ch cl z sqrt(tke)
        kb = []
        for i in range(n + 1):
            K = ex.R(F(204, 1000)) * ex.R(F(845, 1000)) * z[i] * ex.usqrt(info["tke"])
            kb += [ex.neq(Kz[i], K), ex.zt(Kz[i]) <= 0]
        ob["diffusivity_positive_and_similarity_formula"] = kb
    return ob, z0


# (closure, forcing, stability, grid nodes, capped path, obligation) triples z3 does not decide within the budget
# (> 1000 s through the whole portfolio) on the unchanged tree.  They are OUTSIDE the claim and listed in the evidence;
# the query is not asked.  The grid code is the same statements for MOST and MOSTM (the closure only enters through
# z0), and the same obligation IS decided for MOST / ustar / unstable on the same path.
KNOWN_UNDECIDED = {("MOSTM", "ustar", "unstable", 4, True, "strictly_increasing")}


def decide(run, c, name, bad, scn, account, found):
    """portfolio: every law instance at once (60 s); lazy instantiation in batches of 30 and of 8 (120 s each);
    every instance at once again with 300 s.  Only the final answer is counted."""
    import json as _json
    import time as _time

    if not bad:
        return
    if (scn.get("closure"), scn.get("forcing"), scn.get("stability"), scn.get("grid_nodes"), scn.get("cut"), name) in KNOWN_UNDECIDED and not scn.get("symbolic_grid_arguments"):
        if account:
            run.note("outside the claim (undecided within the budget): %s on %s" % (name, scn))
        return
    t0 = _time.time()
    s = ex.solver_for(c, timeout_ms=60000)
    s.add(z3.Or(bad))
    r = str(s.check())
    how = "all law instances"
    if r not in ("sat", "unsat") and not account:
        # canary runs: a short portfolio; "no longer provable" is what the real check would report as inconclusive
        r, s2 = ex.check_lazy(c, bad, per=30, budget_s=45)
        if r == "sat":
            s = s2
        elif r != "unsat":
            found.append(("undecided:" + name, scn, {}))
            return
    if r not in ("sat", "unsat"):
        for per in (30, 8):
            r, s2 = ex.check_lazy(c, bad, per=per, budget_s=120)
            if r in ("sat", "unsat"):
                s, how = s2, "lazy instantiation (batches of %d)" % per
                break
    if r not in ("sat", "unsat") and len(bad) > 1:
        # the disjuncts one by one (unsat for each <=> unsat for the disjunction)
        rs = []
        for b_ in bad:
            s_ = ex.solver_for(c, timeout_ms=60000)
            s_.add(b_)
            r_ = str(s_.check())
            if r_ not in ("sat", "unsat"):
                for per in (30, 8):
                    r_, s2 = ex.check_lazy(c, [b_], per=per, budget_s=90)
                    if r_ in ("sat", "unsat"):
                        s_ = s2
                        break
            rs.append(r_)
            if r_ == "sat":
                s = s_
                break
            if r_ not in ("sat", "unsat"):
                break
        r = "sat" if "sat" in rs else ("unsat" if rs and all(x == "unsat" for x in rs) and len(rs) == len(bad) else "unknown")
        how = "disjuncts one by one"
    if r not in ("sat", "unsat"):
        s = ex.solver_for(c, timeout_ms=300000)
        s.add(z3.Or(bad))
        r = str(s.check())
    if r not in ("sat", "unsat"):
        r = "unknown"
        if not account:
            # canary runs: "no longer provable" is what the real check would report as inconclusive (exit 2)
            found.append(("undecided:" + name, scn, {}))
    if account:
        run.solver_s += _time.time() - t0
        run.queries[r] += 1
        o = run.ob(name)
        o["queries"] += 1
        o[r] += 1
        if r == "unknown":
            run.inconclusive.append({"obligation": name, "scenario": scn})
        run.nontrivial.add((name, _json.dumps(scn, sort_keys=True, default=str)))
        if how != "all law instances":
            o["decided_by_lazy_instantiation"] = o.get("decided_by_lazy_instantiation", 0) + 1
    if r == "sat":
        m = s.model()
        vals = {}
        for d in m.decls():
            if "!" not in d.name() and d.name() != "pi":
                try:
                    v = m[d]
                    vals[d.name()] = float(v.numerator_as_long()) / float(v.denominator_as_long())
                except Exception:
                    pass
        found.append((name, scn, vals))


def profiles_part(run, pbl, cases, n, account=True, first_only=False, split=None):
    """split = (path parity, obligation group) or None: the heavy cases are spread over four processes, each
    taking the explored paths of one parity (in exploration order) and every second obligation"""
    found = []
    for case in cases:
        closure, forcing, sign = case[:3]
        grid_mode = case[3] if len(case) > 3 and case[3] in ("stretch", "domain_height", "both") else None
        fn = profile_case(pbl, closure, forcing, sign, n, grid_mode)
        npaths = 0
        raw = -1
        for info, c in ex.explore(fn, cap=40):
            raw += 1
            if split is not None and raw % 2 != split[0]:
                continue
            try:
                ob, z0 = grid_obligations(c, pbl, info, closure, forcing, n)
            except TypeError:
                continue
            if split is not None and split[1] is not None:
                ob = {k: v for j, (k, v) in enumerate(sorted(ob.items())) if j % 2 == split[1]}
            try:
                if not c.feasible(z3.BoolVal(True), full=True, timeout=30000):
                    continue  # the physical-consistency assumptions empty this path
            except ex.PathCap:
                pass  # feasibility unknown: the path is kept (its twin decides whether it counts)
            npaths += 1
            scn = dict(closure=closure, forcing=forcing, stability="stable" if sign > 0 else "unstable", layers=n,
                       grid_nodes=len(np.ravel(info["z"])), cut=bool(info["cut"]))
            if grid_mode:
                scn["symbolic_grid_arguments"] = grid_mode
            # reachability of the path: an infeasible path whose feasibility check ran out of time above is
            # recognised here and dropped (at least one feasible path per case is required below)
            s_ = ex.solver_for(c)
            s_.set("timeout", 120000)
            r_ = str(s_.check())
            if r_ == "unsat":
                npaths -= 1
                continue
            if not account and r_ != "sat":
                found.append(("undecided:reachability", dict(closure=closure), {}))
                return found
            if account and (split is None or not split[1]):
                run.twins["total"] += 1
                if r_ == "sat":
                    run.twins["sat"] += 1
                else:
                    run.errors.append("vacuity twin not sat (%s): C09 %s" % (r_, scn))
                run.paths["explored"] += 1
                run.paths["cap_hits"] += int(info["cut"])
                run.sample(dict(scn, uf_applications={k: len(v) for k, v in c.apps.items()}), cap=4)
            for name, bad in ob.items():
                if grid_mode and not name.startswith(("grid_", "measurement_height", "strictly_increasing", "reaches_domain")):
                    continue  # the grid jobs decide the grid clauses only
                decide(run, c, name, bad, scn, account, found)
            if found:
                break  # a violation candidate for this case: no need to explore its remaining grid lengths
            if first_only and found:
                return found
        if npaths == 0 and (split is None or (split[0] == 0 and not split[1])):
            if account:
                run.errors.append("no feasible path for %s/%s/%s" % (closure, forcing, sign))
            else:
                found.append(("no_feasible_path", dict(closure=closure), {}))
    return found


def roundtrip_part(run, pbl, account=True, only=None):
    """ustar -> z0 -> ustar: the friction velocity recovered from the derived roughness length is the
    one supplied, and the complete grid and profiles coincide.  The z0/ustar block is shared by MOST,
    MOSTM and CONSTANT and the rest of the computation is the same function of (ustar, z0, grid), so it
    is observed through the CONSTANT closure (K = kappa ustar zm / prsc exposes ustar) on the smallest grid."""
    found = []
    for sign in (1, -1):
        for closure in ("CONSTANT", "MOST"):
            if only is not None and (sign, closure) != tuple(only):
                continue

            def fn(c, sign=sign, closure=closure):
                zm, um, vm, mol, prsc, ustar = (c.real(k) for k in ("zm", "um", "vm", "mol", "prsc", "ustar"))
                c.assume += [zm.v > 0, um.v * um.v + vm.v * vm.v > 0, prsc.v > 0, ustar.v > 0, (mol.v > 0) if sign > 0 else (mol.v < 0)]
                z1, p1 = pbl.vertical_profiles(1, zm, (um, vm), ustar=ustar, mol=mol, prsc=prsc, closure=closure)
                if np.size(z1) < 2:
                    return None  # a grid that cannot hold the measurement height: excluded by 0 < z0 < zm (pruned below)
                absum = ex.usqrt(um * um + vm * vm)
                z0f = zm * ex.uexp(-(KAP * absum) / ustar + pbl.psi(zm / mol))
                c.assume += [ex.zt(z0f) > 0, ex.zt(z0f) < zm.v]
                z2, p2 = pbl.vertical_profiles(1, zm, (um, vm), z0=z0f, mol=mol, prsc=prsc, closure="CONSTANT")
                if np.size(z2) < 2:
                    return None
                bad = [ex.neq(np.ravel(p2[4])[0] * prsc, KAP * ustar * zm)]
                if closure == "CONSTANT":
                    za, zb = np.ravel(z1), np.ravel(z2)
                    if len(za) != len(zb):
                        bad.append(z3.BoolVal(True))
                    else:
                        bad += [ex.neq(za[i], zb[i]) for i in range(len(za))]
                        for a, b in zip(p1, p2):
                            a, b = np.ravel(a), np.ravel(b)
                            bad += [ex.neq(a[i], b[i]) for i in range(len(a))]
                return bad

            scn = dict(stability="stable" if sign > 0 else "unstable", derived_with=closure)
            for bad, c in ex.explore(fn, cap=24):
                if bad is None:
                    c.assume.append(z3.BoolVal(True))
                    try:
                        if c.feasible(z3.And(c.real("zm").v > 0), full=True, timeout=30000) and False:
                            pass
                    except ex.PathCap:
                        pass
                    continue
                try:
                    if not c.feasible(z3.BoolVal(True), full=True, timeout=30000):
                        continue
                except ex.PathCap:
                    pass
                if account:
                    run.twin(ex.solver_for(c), "C09 round trip %s" % scn)
                    run.paths["explored"] += 1
                decide(run, c, "roughness_length_friction_velocity_round_trip", bad, scn, account, found)
    return found


def stability_part(run, pbl, km, account=True):
    found = []

    def explore_ob(name, scn, fn):
        for bad, c in ex.explore(fn, cap=16):
            try:
                if not c.feasible(z3.BoolVal(True), full=True, timeout=30000):
                    continue
            except ex.PathCap:
                pass
            if account:
                run.twin(ex.solver_for(c), "C09 %s %s" % (name, scn))
                run.paths["explored"] += 1
            decide(run, c, name, bad, scn, account, found)

    # psi(0) = 0, phi(0) = 1 and both branch formulas agree at 0
    def neutral(c):
        c.PI()
        bad = [ex.neq(pbl.psi(ex.R(0)), 0), ex.neq(pbl.phi(ex.R(0)), 1)]
        x = c.real("x")
        c.assume.append(x.v == 0)
        return bad + [ex.neq(pbl.psi(x), 0), ex.neq(pbl.phi(x), 1)]

    explore_ob("neutral_limit_psi0_phi1", dict(x=0), neutral)
    for sign in (1, -1):
        scn = dict(stability="stable" if sign > 0 else "unstable")

        def deriv(c, sign=sign):
            # x psi'(x) = phi_m(x) - 1 (dual numbers through the real psi)
            c.PI()
            x = c.real("x")
            c.assume.append(x.v > 0 if sign > 0 else x.v < 0)
            d = pbl.psi(D(x, 1))
            if isinstance(d, np.ndarray):
                d = np.ravel(d)[0]
            phim = (ex.R(1) + ex.R(5) * x) if sign > 0 else ex.upow(ex.R(1) - ex.R(16) * x, F(-1, 4))
            return [ex.neq(x * d.d, phim - 1)] if isinstance(d, D) else [z3.BoolVal(True)]

        explore_ob("psi_is_the_integral_of_the_flux_gradient_function", scn, deriv)

        def copies(c, sign=sign):
            c.PI()
            zz, Lm = c.real("zq"), c.real("Lq")
            c.assume += [zz.v > 0, (Lm.v > 0) if sign > 0 else (Lm.v < 0)]
            x = zz / Lm
            za, La = ex.xarr([zz]), ex.xarr([Lm])
            bad = [ex.neq(pbl.phi(x), km._phiC(za, La)[0]), ex.neq(pbl.psi(x), km._psiM(za, La)[0])]
            pm = km._phiM(za, La)[0]
            bad.append(ex.neq(pbl.phi(x), pm * pm) if sign < 0 else ex.neq(pbl.phi(x), pm))
            # independent formulas (momentum / scalar Businger-Dyer functions)
            want = (ex.R(1) + ex.R(5) * x) if sign > 0 else ex.upow(ex.R(1) - ex.R(16) * x, F(-1, 2))
            bad.append(ex.neq(pbl.phi(x), want))
            return bad

        explore_ob("agrees_with_reference_model_copies_and_formula", scn, copies)
    return found


def replay(rec):
    """the real functions at the model's values and on a small grid of forcings"""
    import logging

    logging.disable(logging.CRITICAL)
    from scipy.integrate import quad

    from bldfm.ffm_kormann_meixner import _phiC, _phiM, _psiM
    from bldfm.pbl_model import phi, psi, vertical_profiles

    bad = []
    m = rec.get("model", {})
    for x in (-3.0, -0.4, -1e-3, 0.0, 1e-3, 0.3, 1.5, 4.0, m.get("x", 0.2)):
        ps, ph = float(psi(x)), float(phi(x))
        if x == 0.0 and (abs(ps) > 1e-12 or abs(ph - 1) > 1e-12):
            bad.append(["neutral", ps, ph])
        if x != 0.0:
            fm = (lambda t: (1 + 5 * t) if t > 0 else (1 - 16 * t) ** -0.25)
            integ = quad(lambda t: (fm(t) - 1) / t, 0, x)[0] if x > 0 else -quad(lambda t: (fm(t) - 1) / t, x, 0)[0]
            want = integ if x > 0 else -integ * -1
            # psi_stable = 5x = +int (phi-1)/t ; psi_unstable = int_x^0 ... sign conventions: compare derivative numerically instead
            hh = 1e-6 * max(1.0, abs(x))
            dps = (float(psi(x + hh)) - float(psi(x - hh))) / (2 * hh)
            if abs(x * dps - (fm(x) - 1)) > 1e-5 * max(1.0, abs(fm(x))):
                bad.append(["x psi'", x, x * dps, fm(x) - 1])
            z_, L_ = np.array([abs(x) * 7.0]), np.array([7.0 if x > 0 else -7.0])
            if abs(ph - float(_phiC(z_, L_)[0])) > 1e-12 or abs(ps - float(_psiM(z_, L_)[0])) > 1e-12:
                bad.append(["reference copies", x])
            expect = float(_phiM(z_, L_)[0]) ** (2 if x < 0 else 1)
            if abs(ph - expect) > 1e-12:
                bad.append(["phi vs phiM", x, ph, expect])
            want_ph = 1 + 5 * x if x > 0 else (1 - 16 * x) ** -0.5
            if abs(ph - want_ph) > 1e-12 * max(1, abs(want_ph)):
                bad.append(["phi formula", x, ph, want_ph])
    for closure in ("MOST", "MOSTM", "CONSTANT", "OAAHOC"):
        for mol in (-30.0, 25.0, 4.0, m.get("mol", 80.0)):
            for n in (3, 7):
                zm, wind, ustar = 8.0, (2.0, -1.3), 0.4
                kw = dict(ustar=ustar, mol=mol, closure=closure, prsc=0.8)
                if closure == "OAAHOC":
                    kw["tke"] = 0.7
                try:
                    z, (u, v, Kx, Ky, Kz) = vertical_profiles(n, zm, wind, **kw)
                except Exception as e:
                    bad.append([closure, mol, "raised", str(e)[:80]])
                    continue
                z, u, v, Kz = np.ravel(z), np.ravel(u), np.ravel(v), np.ravel(Kz)
                if len(z) <= n:
                    bad.append([closure, mol, n, "grid shorter than n+1"])
                    continue
                ok = np.isfinite(z)
                if abs(z[n] - zm) > 1e-9 * zm or np.any(np.diff(z[ok]) <= 0) or abs(u[n] - wind[0]) > 1e-9 or abs(v[n] - wind[1]) > 1e-9:
                    bad.append([closure, mol, n, "grid/wind", float(z[n]), float(u[n]), float(v[n])])
                if np.any(np.abs(u[ok] * wind[1] - v[ok] * wind[0]) > 1e-9) or np.any(Kz[ok] <= 0):
                    bad.append([closure, mol, n, "direction/K"])
                if closure in ("MOST", "MOSTM"):
                    x = z[ok] / mol
                    want = 0.4 * ustar * z[ok] / np.where(x > 0, 1 + 5 * x, (1 - 16 * np.minimum(x, 0)) ** -0.5) / 0.8
                    if np.any(np.abs(Kz[ok] - want) > 1e-9 * np.abs(want)):
                        bad.append([closure, mol, n, "K similarity formula"])
                if closure in ("MOST", "MOSTM", "CONSTANT"):
                    z2, p2 = vertical_profiles(n, zm, wind, z0=float(z[0]), mol=mol, closure=closure, prsc=0.8)
                    if len(z2) != len(z) or np.nanmax(np.abs(np.ravel(z2) - z)) > 1e-9 or np.nanmax(np.abs(np.ravel(p2[4]) - Kz)) > 1e-9 * np.nanmax(Kz):
                        bad.append([closure, mol, n, "z0<->ustar round trip"])
    for st, dh in ((None, 25.0), (30.0, None), (12.0, None), (30.0, 40.0), (m.get("stretch"), m.get("domain_height"))):
        if st is None and dh is None:
            continue
        zm, n = 8.0, 6
        kw = dict(z0=0.1, mol=200.0, closure="CONSTANT")
        if st is not None:
            kw["stretch"] = st
        if dh is not None:
            if dh <= zm:
                continue
            kw["domain_height"] = dh
        z, _ = vertical_profiles(n, zm, (2.0, -1.3), **kw)
        z = np.ravel(z)
        ok = np.isfinite(z)
        top = 2 * zm if dh is None else dh
        if len(z) <= n or abs(z[n] - zm) > 1e-9 * zm or np.any(np.diff(z[ok]) <= 0) or (ok.all() and z[-1] < top * (1 - 1e-12)):
            bad.append(["grid arguments", st, dh, len(z), float(z[min(n, len(z) - 1)]), float(z[ok][-1]), top])
    return dict(discrepancies=bad[:8], confirmed=bool(bad))


CANARIES = [
    ("stable_phi_capped", {"pbl_model": [("x > 0.0, 1.0 + 5.0 * x, np.power(1.0 - 16.0 * x, -0.5, dtype=complex).real", "x > 0.0, 1.0 + 5.0 * np.minimum(x, 1.0), np.power(1.0 - 16.0 * x, -0.5, dtype=complex).real")]}, "stab"),
    ("psi_unstable_sign", {"pbl_model": [("+ 2.0 * np.arctan(xi)", "- 2.0 * np.arctan(xi)")]}, "stab"),
    ("grid_through_wrong_height", {"pbl_model": [("bb = zm / (np.exp(-z0 / h) - np.exp(-zm / h))", "bb = zm / (np.exp(-z0 / h) - np.exp(-zmx / h))")]}, "prof"),
    ("spacing_off_by_one", {"pbl_model": [("dzeta = zm / n", "dzeta = zm / (n + 1)")]}, "prof"),
    ("domain_height_default_follows_stretch", {"pbl_model": [("        zmx = 2.0 * meas_height\n", "        zmx = h\n")]}, "grid"),
    ("wind_components_swapped", {"pbl_model": [("        u = um / absum * absu\n        v = vm / absum * absu\n\n        K = kap * ustar * z / phi(z / mol) / prsc\n        Kx = Ky = Kz = K", "        u = vm / absum * absu\n        v = um / absum * absu\n\n        K = kap * ustar * z / phi(z / mol) / prsc\n        Kx = Ky = Kz = K")]}, "prof"),
    ("z0_without_stability_correction", {"pbl_model": [("z0 = zm * np.exp(-kap * absum / ustar + psi(zm / mol))", "z0 = zm * np.exp(-kap * absum / ustar)")]}, "prof"),
    ("prandtl_number_ignored", {"pbl_model": [("        K = kap * ustar * z / phi(z / mol) / prsc\n        Kx = Ky = Kz = K", "        K = kap * ustar * z / phi(z / mol)\n        Kx = Ky = Kz = K")]}, "prof"),
]


def cases_for(tier):
    cases = []
    for closure in ("MOST", "MOSTM", "CONSTANT"):
        for forcing in ("ustar", "z0"):
            for sign in (1, -1):
                if tier == "quick" and closure == "MOSTM" and forcing == "ustar":
                    # quick tier (must finish well inside 15 minutes): MOSTM shares the grid, z0 and wind statements with
                    # MOST and differs in the Kx / Ky split only, which the z0-forced MOSTM cases decide; the ustar-forced
                    # MOSTM cases (the two most expensive jobs) run in the thorough tier
                    continue
                cases.append((closure, forcing, sign))
    cases += [("OAAHOC", "ustar", 1), ("OAAHOC", "ustar", -1)]
    # the optional grid arguments, each alone and together (the grid code is shared by all closures)
    cases += [("CONSTANT", "z0", 1, gm) for gm in ("stretch", "domain_height", "both")]
    return cases


def worker(args):
    from ..core import Run

    import time as _time

    kind, payload, n, cap, patch, account = args
    run = Run(PID)
    run.cex = []
    ex.XNP.ARANGE_CAP = cap
    _t0 = _time.time()
    try:
        L, pbl, km = load(patch)
        if kind == "prof":
            split = None
            if payload and isinstance(payload[-1], tuple) and payload[-1] and payload[-1][0] == "split":
                split, payload = (payload[-1][1], payload[-1][2]), tuple(payload[:-1])
            f = profiles_part(run, pbl, [payload], n, account=account, first_only=not account, split=split)
        elif kind == "round":
            f = roundtrip_part(run, pbl, account=account, only=payload)
        else:
            f = stability_part(run, pbl, km, account=account)
        for name, scn, vals in f:
            run.cex.append(dict(obligation=name, scenario=scn, model=vals))
    except KeyError:
        run.cex.append(dict(obligation="n/a"))
    except Exception:
        import traceback

        if account:
            run.errors.append("exception: %s" % traceback.format_exc()[-1500:])
        else:
            run.cex.append(dict(obligation="raised"))
    if account:
        run.note("job %s %s n=%d: %.0f s" % (kind, payload, n, _time.time() - _t0))
    d = run.export()
    return d


def main(run):
    quick = run.tier == "quick"
    # MOST / MOSTM / OAAHOC carry 40-60 transcendental applications per path (thousands of law instances): they are
    # decided for 2 layers / 4 nodes; the thorough tier adds the ustar-forced MOSTM cases and the CONSTANT closure and
    # grid jobs with 3-4 layers / up to 7 nodes (deeper bounds for the shared grid code)
    n = 2
    cap = n + 2
    run.explanation = (
        "Exact-arithmetic symbolic execution of vertical_profiles / psi / phi and the reference model's stability helpers with all forcings "
        "symbolic and transcendental functions uninterpreted (laws instantiated over the recorded applications); the np.arange length is "
        "split by a solver-guided path explorer (grids up to %d nodes; longer ones are cut and counted). z3 decides the grid, wind, diffusivity, "
        "round-trip and stability-function identities on every path." % cap
    )
    run.assumptions = [
        "0 < z0 < z_m, |wind| > 0, positive friction velocity, prsc > 0, tke > 0; mol split by sign",
        "uninterpreted exp/log/sqrt/pow/atan with: exp>0 and monotone, log/exp inverse and monotone against each other, log 1 = 0, pow product/"
        "inverse/root laws, sqrt^2, atan(1)=pi/4; three-way law instances only for families with <= 14 applications",
        "np.nan in never-selected np.where branches is an unconstrained real",
        "OUTSIDE: absence of NaN at the last node when the mapped coordinate leaves its domain (needs the numerical value of exp); scipy.quad agreement to a tolerance; grids longer than the cap",
    ]
    L, pbl, km = load()
    L.run = run
    L.record("pbl_model", "vertical_profiles", "psi", "phi")
    L.record("ffm_kormann_meixner", "_phiM", "_phiC", "_psiM")
    run.transforms = L.transforms()
    jobs = [("prof", cs, n, cap, None, True) for cs in cases_for(run.tier)] + [("stab", None, n, cap, None, True)] + [("round", (sg, cl), n, cap, None, True) for sg in (1, -1) for cl in ("CONSTANT", "MOST")]
    if not quick:
        deep = [cs for cs in cases_for(run.tier) if cs[0] == "CONSTANT"]
        jobs += [("prof", cs, 3, 6, None, True) for cs in deep] + [("prof", cs, 4, 7, None, True) for cs in deep if len(cs) > 3 or cs[1] == "z0"]
    # heavy cases (similarity closures driven by ustar: 40-60 transcendental applications per path) are spread over
    # four processes each; real jobs and canaries (in-memory source mutants) share one pool of 16 processes
    import concurrent.futures as cf
    import multiprocessing as mp

    split_jobs = []
    for j in jobs:
        kind, payload = j[0], j[1]
        if kind == "prof" and payload[0] in ("MOST", "MOSTM") and payload[1] == "ustar" and len(payload) == 3 and j[2] == n:
            split_jobs += [(kind, tuple(payload) + (("split", a, b),)) + tuple(j[2:]) for a in (0, 1) for b in ((0, 1) if not quick else (None,))]
        else:
            split_jobs.append(j)
    jobs = split_jobs
    cj = []
    for name, patch, kind in CANARIES:
        payload = ("MOST", "ustar", 1) if kind == "prof" else (("CONSTANT", "z0", 1, "stretch") if kind == "grid" else None)
        cj.append((name, ("prof" if kind == "grid" else kind, payload, n, cap, patch, False)))
        if name == "z0_without_stability_correction":
            cj.append((name + "_roundtrip", ("round", None, n, cap, patch, False)))
    cex = []
    with cf.ProcessPoolExecutor(max_workers=min(12 if quick else 8, os.cpu_count() or 1), mp_context=mp.get_context("spawn")) as pool:
        heavy_first = sorted(jobs, key=lambda j: 0 if (j[0] == "prof" and j[1][0] in ("MOST", "MOSTM")) or j[0] == "round" else 1)
        futs = [pool.submit(worker, j) for j in heavy_first]
        cfuts = [pool.submit(worker, a) for _, a in cj]
        for f_ in futs:
            cex += run.merge(f_.result())
        cres = [f_.result() for f_ in cfuts]
    seen = set()
    for c_ in cex:
        if c_["obligation"] in seen:
            continue
        seen.add(c_["obligation"])
        res = replay(c_)
        run.report(dict(c_, property=PID, replay=res, cmd="./check C09 --replay <this file>"), res["confirmed"])
    run.bounds = dict(layers=n, grid_nodes_cap=cap, deeper_jobs="none" if quick else "CONSTANT closure and grid jobs: 3 layers / 6 nodes, 4 layers / 7 nodes",
                      undecided_within_budget=sorted(map(list, KNOWN_UNDECIDED)), closures=["MOST", "MOSTM", "CONSTANT", "OAAHOC"], forcing=["ustar", "z0"],
                      stability=["stable", "unstable"], reals="unbounded",
                      grid_arguments="stretch and domain_height: defaulted in every closure case; symbolic (each alone, both) for the grid clauses")
    # canaries: collect
    if True:
        for (name, _), d in zip(cj, cres):
            obs = [c_["obligation"] for c_ in d["cex"]]
            if obs == ["n/a"]:
                run.note("canary %s not applicable" % name)
                continue
            run.canaries["total"] += 1
            if obs:
                run.canaries["caught"] += 1
            else:
                run.canaries["missed"].append(name)
                run.errors.append("canary %s was not noticed by the harness" % name)
