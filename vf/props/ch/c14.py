"""CrossHair conditions for C14 (timeseries / multitower / parallel drivers).
The repository's own run_bldfm_timeseries, run_bldfm_multitower,
run_bldfm_parallel, _worker_single, _worker_timeseries, _make_cache are
executed; run_bldfm_single returns a token, and the process pool is a contract
model: tasks run on copies of module state (restored after each task, as fork
does), map() yields results in submission order, submit()/as_completed() yield
in an order chosen by the environment (rotation / reversal of the submission
order - 2n of the n! orders)."""
import concurrent.futures as CF
import logging
import os
from typing import List

logging.disable(logging.CRITICAL)

import bldfm.cache as CACHE
import bldfm.config as RC
import bldfm.fft_manager as FM
import bldfm.interface as I
from bldfm.config_parser import BLDFMConfig, DomainConfig, MetConfig, ParallelConfig, SolverConfig, TowerConfig

_SCHED = [0, False]
_LOG = {"caches": 0, "single_cache_flags": []}


class _Future:
    def __init__(self, value):
        self._v = value

    def result(self, timeout=None):
        return self._v

    def done(self):
        return True

    def exception(self, timeout=None):
        return None


def _order(n):
    r, rev = _SCHED
    seen = [(k + r) % n for k in range(n)] if n else []
    if rev:
        seen.reverse()
    return seen


class FakePool:
    def __init__(self, max_workers=None, **kw):
        if max_workers is not None and max_workers <= 0:
            raise ValueError("max_workers must be greater than 0")
        self._futs = []

    def __enter__(self):
        return self

    def __exit__(self, *a):
        return False

    def _run(self, fn, task):
        saved = (RC.NUM_THREADS, FM._fft_manager, os.environ.get("NUMBA_NUM_THREADS"))
        try:
            return fn(task)
        finally:  # fork isolation: the child's module state never reaches the parent
            RC.NUM_THREADS, FM._fft_manager = saved[0], saved[1]
            if saved[2] is None:
                os.environ.pop("NUMBA_NUM_THREADS", None)
            else:
                os.environ["NUMBA_NUM_THREADS"] = saved[2]

    def map(self, fn, *iterables, **kw):
        tasks = list(zip(*iterables))
        n = len(tasks)
        out = {}
        for k in _order(n):  # execution order chosen by the environment
            out[k] = self._run(lambda t: fn(*t), tasks[k])
        return iter([out[k] for k in range(n)])  # results in submission order

    def submit(self, fn, *args, **kw):
        f = _Future(self._run(lambda t: fn(*t, **kw), args))
        self._futs.append(f)
        return f

    def shutdown(self, *a, **k):
        pass


def _as_completed(fs, timeout=None):
    fs = list(fs)
    # completion order chosen by the environment, relative to submission order
    return iter([fs[k] for k in _order(len(fs))])


def _wait(fs, timeout=None, return_when=None):
    return set(fs), set()


I.ProcessPoolExecutor = FakePool
CF.ProcessPoolExecutor = FakePool
CF.as_completed = _as_completed
CF.wait = _wait
if hasattr(I, "as_completed"):
    I.as_completed = _as_completed
if hasattr(I, "wait"):
    I.wait = _wait


def _single(config, tower, met_index=0, surface_flux=None, cache=None):
    _LOG["single_cache_flags"].append(cache is not None)
    # the tower's coordinates as the single run sees them are part of "the corresponding single run"
    return ("single", tower.name, met_index, tower.x, tower.y)


def _tok(t, i):
    return ("single", t[0], i, t[1], t[2])


I.run_bldfm_single = _single


class _CacheToken:
    def __init__(self, *a, **k):
        _LOG["caches"] += 1


CACHE.GreensFunctionCache = _CacheToken

STRATS = ["towers", "time", "both", "bogus"]


def _cfg(n_towers, n_steps, use_cache, footprint, cfg_workers):
    # a reference origin is configured and the towers' local coordinates were edited after construction
    # (moved into the domain): whatever a driver does with the configuration, the single runs must see these
    towers = [TowerConfig(name="T%d" % k, lat=50.9501 + 0.001 * k, lon=11.5861, z_m=5.0) for k in range(n_towers)]
    dom = DomainConfig(nx=4, ny=4, xmax=10.0, ymax=10.0, nz=2, ref_lat=50.95, ref_lon=11.586)
    met = MetConfig(ustar=list(range(1, n_steps + 1)))
    cfg = BLDFMConfig(domain=dom, towers=towers, met=met, solver=SolverConfig(footprint=footprint),
                      parallel=ParallelConfig(max_workers=cfg_workers, use_cache=use_cache))
    for k, t in enumerate(cfg.towers):
        t.x, t.y = 2.0 + k, 3.0 + k
    return cfg


def _snap(cfg):
    return [(t.name, t.x, t.y) for t in cfg.towers]


def check_parallel(n_towers, n_steps, strategy, workers_given, workers, rot, rev, parent_threads, use_cache, footprint):
    _SCHED[0], _SCHED[1] = rot, rev
    RC.NUM_THREADS = parent_threads
    sentinel = object()
    FM._fft_manager = sentinel
    cfg = _cfg(n_towers, n_steps, use_cache, footprint, 2)
    strat = STRATS[strategy]
    snap = _snap(cfg)
    try:
        res = I.run_bldfm_parallel(cfg, max_workers=workers if workers_given else None, parallel_over=strat)
    except ValueError:
        return strat == "bogus"
    if strat == "bogus":
        return False
    exp = {t[0]: [_tok(t, i) for i in range(n_steps)] for t in snap}
    return (res == exp and list(res.keys()) == [t[0] for t in snap] and _snap(cfg) == snap
            and RC.NUM_THREADS == parent_threads and FM._fft_manager is sentinel
            and res == I.run_bldfm_multitower(cfg))


def check_parallel_s0(n_towers: int, n_steps: int, workers_given: bool, workers: int, rot: int, rev: bool,
                      parent_threads: int, use_cache: bool, footprint: bool) -> bool:
    """
    pre: 1 <= n_towers <= {TMAX} and 1 <= n_steps <= {TMAX} and 1 <= workers <= 5 and 0 <= rot <= 5 and 1 <= parent_threads <= 4
    post: _
    """
    return check_parallel(n_towers, n_steps, 0, workers_given, workers, rot, rev, parent_threads, use_cache, footprint)


def check_parallel_s1(n_towers: int, n_steps: int, workers_given: bool, workers: int, rot: int, rev: bool,
                      parent_threads: int, use_cache: bool, footprint: bool) -> bool:
    """
    pre: 1 <= n_towers <= {TMAX} and 1 <= n_steps <= {TMAX} and 1 <= workers <= 5 and 0 <= rot <= 5 and 1 <= parent_threads <= 4
    post: _
    """
    return check_parallel(n_towers, n_steps, 1, workers_given, workers, rot, rev, parent_threads, use_cache, footprint)


def check_parallel_s2(n_towers: int, n_steps: int, workers_given: bool, workers: int, rot: int, rev: bool,
                      parent_threads: int, use_cache: bool, footprint: bool) -> bool:
    """
    pre: 1 <= n_towers <= {TMAX} and 1 <= n_steps <= {TMAX} and 1 <= workers <= 5 and 0 <= rot <= 5 and 1 <= parent_threads <= 4
    post: _
    """
    return check_parallel(n_towers, n_steps, 2, workers_given, workers, rot, rev, parent_threads, use_cache, footprint)


def check_parallel_s3(n_towers: int, n_steps: int, workers_given: bool, workers: int, rot: int, rev: bool,
                      parent_threads: int, use_cache: bool, footprint: bool) -> bool:
    """
    pre: 1 <= n_towers <= {TMAX} and 1 <= n_steps <= {TMAX} and 1 <= workers <= 5 and 0 <= rot <= 5 and 1 <= parent_threads <= 4
    post: _
    """
    return check_parallel(n_towers, n_steps, 3, workers_given, workers, rot, rev, parent_threads, use_cache, footprint)


def twin_parallel(n_towers: int, n_steps: int, strategy: int, workers_given: bool, workers: int, rot: int, rev: bool,
                  parent_threads: int, use_cache: bool, footprint: bool) -> bool:
    """
    pre: 1 <= n_towers <= {TMAX} and 1 <= n_steps <= {TMAX} and 0 <= strategy <= 3 and 1 <= workers <= 5 and 0 <= rot <= 5 and 1 <= parent_threads <= 4
    post: _
    """
    check_parallel(n_towers, n_steps, strategy, workers_given, workers, rot, rev, parent_threads, use_cache, footprint)
    return False


def check_serial(n_towers: int, n_steps: int, use_cache: bool, footprint: bool, user_flux: bool) -> bool:
    """
    pre: 1 <= n_towers <= {TMAX} and 1 <= n_steps <= {TMAX}
    post: _
    """
    cfg = _cfg(n_towers, n_steps, use_cache, footprint, 1)
    flux = ("flux",) if user_flux else None
    _LOG["caches"] = 0
    _LOG["single_cache_flags"] = []
    snap = _snap(cfg)
    ts = I.run_bldfm_timeseries(cfg, cfg.towers[-1], surface_flux=flux)
    ok = ts == [_tok(snap[-1], i) for i in range(n_steps)]
    want_cache = use_cache and footprint
    ok = ok and _LOG["caches"] == (1 if want_cache else 0) and _LOG["single_cache_flags"] == [want_cache] * n_steps
    _LOG["caches"] = 0
    mt = I.run_bldfm_multitower(cfg, surface_flux=flux)
    ok = ok and mt == {t[0]: [_tok(t, i) for i in range(n_steps)] for t in snap}
    ok = ok and list(mt.keys()) == [t[0] for t in snap] and _LOG["caches"] == (n_towers if want_cache else 0) and _snap(cfg) == snap
    return ok


def twin_serial(n_towers: int, n_steps: int, use_cache: bool, footprint: bool, user_flux: bool) -> bool:
    """
    pre: 1 <= n_towers <= {TMAX} and 1 <= n_steps <= {TMAX}
    post: _
    """
    check_serial(n_towers, n_steps, use_cache, footprint, user_flux)
    return False
