"""C15 - result cache: transparent, complete, effective, crash-safe.

(a) Key completeness / effectiveness, kind D.  The real solver source is
    executed once per request *skeleton* (discrete fields enumerated) with a
    recording cache whose _compute_key is the REAL method of the privately
    loaded cache.py, run over a hashlib stub that records the update() tokens
    instead of hashing.  Every value-typed argument (halo width, background,
    tower position, domain extents, every entry of z and of the five profiles)
    is an identity-tagged number: the tag (a z3 real) survives into the tokens
    hashed at lookup and at store, so one run yields what the code actually
    keys on - including the halo being resolved in between.  z3 then decides,
    for every ordered pair of skeletons, whether values exist with
    key_put(r1) == key_get(r2) while r1, r2 differ in a result-determining
    parameter (all but `cache` and the VALUES of srf_flx in footprint mode), and
    for every skeleton whether an identical repeat can miss.  Every parameter
    of the real signature (inspect.signature) must be classified, so a newly
    added parameter cannot slip through.  A sat model is replayed with a real
    on-disk cache and a hit-counting subclass: stale result, or no hit.
(b) Crash safety, Engine B (CrossHair) on the real GreensFunctionCache.put/get
    over a file-system model with a symbolic crash step and failure kind
    (vf/props/ch/c15.py).  Replay: a real np.savez file truncated at every
    1/16th.
(c) Transparency on hits is (a) + the np.load contract."""
import inspect
import itertools
import os
import types

import numpy as np
import z3

from .. import chrun
from ..core import HarnessError
from ..symnp import affine as af
from ..symnp import kindl
from ..symnp import stubs
from ..symnp.loader import Loader

PID = "C15"
HERE = os.path.dirname(os.path.abspath(__file__))


# ---------------------------------------------------------------------------
# identity-tagged values


def _term(x):
    if isinstance(x, (TF, TI)):
        return x.term
    if isinstance(x, (bool, np.bool_)):
        return None
    if isinstance(x, (int, np.integer)):
        return z3.IntVal(int(x))
    if isinstance(x, (float, np.floating)):
        return z3.RealVal(repr(float(x)))
    return None


def _lift(op, sym):
    """scalar arithmetic keeps the identity: the result carries the z3 term of the operation (exact real /
    integer semantics); anything else (arrays, complex, Aff) falls back to the plain float / int behaviour"""

    def f(self, o):
        t = _term(o)
        if t is None:
            base = int if isinstance(self, TI) else float
            return getattr(base, op)(base(self), o)
        base = int if (isinstance(self, TI) and isinstance(o, (int, np.integer)) and sym != "/") else float
        r = getattr(base, op)(base(self), base(o))
        if r is NotImplemented:
            return r
        a, b = (t, self.term) if op.startswith("__r") and op not in ("__radd__", "__rmul__") else (self.term, t)
        if sym == "/":
            a, b = (z3.ToReal(a) if a.is_int() else a), (z3.ToReal(b) if b.is_int() else b)
            term = a / b
        elif sym == "+":
            term = a + b
        elif sym == "-":
            term = a - b
        else:
            term = a * b
        if isinstance(r, (int, np.integer)) and not isinstance(r, bool):
            return TI(int(r), term)
        return TF(float(r), term)

    return f


class TF(float):
    """a concrete float that carries the identity of a symbolic value"""

    def __new__(cls, v, term):
        o = float.__new__(cls, v)
        o.term = term
        return o

    def __neg__(self):
        return TF(-float(self), -self.term)

    def __pos__(self):
        return self


class TI(int):
    """a concrete int that carries the identity of a symbolic integer (e.g. a whole number of pad cells)"""

    def __new__(cls, v, term):
        o = int.__new__(cls, v)
        o.term = term
        return o

    def __neg__(self):
        return TI(-int(self), -self.term)


for _op, _s in (("__add__", "+"), ("__radd__", "+"), ("__sub__", "-"), ("__rsub__", "-"), ("__mul__", "*"), ("__rmul__", "*"),
                ("__truediv__", "/"), ("__rtruediv__", "/")):
    setattr(TF, _op, _lift(_op, _s))
    setattr(TI, _op, _lift(_op, _s))


def keep_int(x):
    """int() inside the loaded modules: truncation of an identity-carrying value is ToInt of its term"""
    if isinstance(x, TI):
        return x
    if isinstance(x, TF):
        t = x.term
        return TI(int(float(x)), z3.If(t >= 0, z3.ToInt(t), -z3.ToInt(-t)))
    return int(x)


class TA(np.ndarray):
    """1-D float array whose entries carry identities"""

    terms = None

    def __array_finalize__(self, obj):
        self.terms = getattr(obj, "terms", None)

    def __getitem__(self, key):
        r = np.ndarray.__getitem__(self, key)
        if isinstance(r, TA) and self.terms is not None:
            try:
                r.terms = list(np.array(self.terms, dtype=object)[key])
            except Exception:
                r.terms = None
        elif self.terms is not None and np.ndim(r) == 0 and isinstance(key, (int, np.integer)):
            return TF(float(r), self.terms[key])
        return r


def tagged_array(values, terms):
    a = np.asarray(values, float).view(TA)
    a.terms = list(terms)
    return a


def tok(x):
    """token of a hashed object: nested tuples with z3 terms at symbolic leaves"""
    if isinstance(x, TF):
        return ("sym", x.term)
    if isinstance(x, TI):
        return ("symint", x.term)
    if isinstance(x, TA) and x.terms is not None and len(x.terms) == x.size:
        return ("arr", tuple(("sym", t) for t in x.terms))
    if isinstance(x, np.ndarray):
        return ("arr", tuple(("num", float(v)) for v in x.ravel()))
    if isinstance(x, (tuple, list)):
        return ("seq", tuple(tok(e) for e in x))
    if isinstance(x, (bool, np.bool_)):
        return ("num", bool(x))
    if isinstance(x, (int, float, np.integer, np.floating)):
        return ("num", float(x))
    return ("obj", repr(x))


class Bytes:
    def __init__(self, t):
        self.t = t


class StrTok:
    def __init__(self, o):
        self.o = o

    def encode(self, *a):
        return Bytes(("str", tok(self.o)))


class NPKey:
    """numpy stand-in inside the privately loaded cache.py"""

    def __getattr__(self, n):
        f = getattr(np, n)
        if not callable(f) or isinstance(f, type):
            return f

        def guarded(*a, **k):
            # a numpy routine the identity model does not know must not silently
            # strip identities: that would turn the key into concrete bytes
            for x in list(a) + list(k.values()):
                if isinstance(x, (TA, TF, TI)) or (isinstance(x, (tuple, list)) and any(isinstance(e, (TF, TI)) for e in x)):
                    raise NotImplementedError("C15 identity model: numpy.%s on identity-tagged data" % n)
            return f(*a, **k)

        return guarded

    def asarray(self, x, *a, **k):
        if isinstance(x, TA):
            return x
        if isinstance(x, (tuple, list)) and any(isinstance(e, (TF, TI)) for e in x):
            return _Seq(x)
        if isinstance(x, (TF, TI)):
            return _Seq((x,))
        return np.asarray(x, *a, **k)

    # conversions that keep values and order: same identity behaviour as asarray
    ascontiguousarray = asarray
    asanyarray = asarray
    array = asarray
    atleast_1d = asarray
    asfortranarray = asarray
    ravel = asarray


class _Seq:
    def __init__(self, x):
        self.x = x

    def tobytes(self):
        return Bytes(("arr", tuple(tok(e) for e in self.x)))


def _tobytes(self):
    return Bytes(tok(self))


TA.tobytes = _tobytes


class Sha:
    def __init__(self):
        self.toks = []

    def update(self, b):
        if isinstance(b, Bytes):
            self.toks.append(b.t)
        elif isinstance(b, (bytes, bytearray)):
            self.toks.append(("bytes", bytes(b)))
        else:
            self.toks.append(("obj", repr(b)))

    def hexdigest(self):
        return Key(tuple(self.toks))


class Key:
    def __init__(self, toks):
        self.toks = toks

    def __format__(self, spec):
        return "key"

    def __getitem__(self, k):
        return "key"


def keep_float(x):
    return x if isinstance(x, TF) else float(x)


def load_stack(patch=None):
    """private solver stack (affine engine, concrete data) + private cache.py over the key-recording stubs"""
    sym = kindl.Sym(record=False, patch=patch)
    # the solver module's float() must not strip identities
    sym.solver_mod.__dict__["float"] = keep_float
    sym.solver_mod.__dict__["int"] = keep_int
    env = {
        "modules": {"numpy": NPKey(), "hashlib": types.SimpleNamespace(sha256=Sha)},
        "builtins": {"str": StrTok, "repr": StrTok, "int": keep_int, "float": keep_float},
        "patch": patch or {},
    }
    L = Loader(env)
    cache_mod = L.load("cache")
    return sym, cache_mod, L


# ---------------------------------------------------------------------------
# skeletons and value slots

SHAPES = [(4, 6), (8, 12)]
LEVELS = [3, [1, 3], [3, 1]]
MODES = [(6, 4), (4, 4)]
NZ = 4
SLOTS = ["halo", "bg", "xm", "ym", "xmx", "ymx"] + ["z%d" % i for i in range(NZ)] + ["%s%d" % (n, i) for n in ("u", "v", "Kx", "Ky", "Kz") for i in range(NZ)]

# classification of the real signature: discrete (enumerated in the skeleton), value (symbolic slot), or not result-determining
CLASSIFIED = {
    "srf_flx": "discrete: shape only (values are not result-determining in footprint mode)",
    "z": "value", "profiles": "value", "domain": "value", "levels": "discrete", "modes": "discrete", "meas_pt": "value",
    "srf_bg_conc": "value", "footprint": "discrete (True; False is checked to bypass the cache)", "analytic": "discrete",
    "halo": "discrete None/given + value", "precision": "discrete", "cache": "not result-determining",
}


def skeletons(tier):
    out = []
    for shape, lv, modes, prec, ana, halo_given in itertools.product(
        SHAPES, range(len(LEVELS)), MODES if tier == "thorough" else MODES[:1], ("double", "single"), (False, True), (False, True)):
        out.append(dict(shape=shape, levels=lv, modes=modes, precision=prec, analytic=ana, halo_given=halo_given))
    if tier == "quick":
        out = [s for s in out if not (s["precision"] == "single" and s["shape"] == (8, 12))]
        out += [dict(shape=(4, 6), levels=0, modes=MODES[1], precision="double", analytic=False, halo_given=True)]
    # an explicit halo of exactly zero (a falsy value): its own discrete class
    out += [dict(shape=(4, 6), levels=lv, modes=MODES[0], precision="double", analytic=False, halo_given=True, halo_zero=True) for lv in (0, 1)]
    return out


STAND_IN = dict(halo=17.0, bg=0.4, xm=12.0, ym=9.0, xmx=60.0, ymx=40.0)


def values(prefix, halo_zero=False):
    """tagged stand-in values for one request; z3 vars named prefix_slot"""
    v = {}
    for s in ("halo", "bg", "xm", "ym", "xmx", "ymx"):
        v[s] = TF(STAND_IN[s], z3.Real("%s_%s" % (prefix, s)))
    if halo_zero:
        v["halo"] = TF(0.0, z3.Real("%s_halo" % prefix))
    zc = np.linspace(0.05, 2.5, NZ)
    t = (zc - zc[0]) / (zc[-1] - zc[0])
    v["z"] = tagged_array(zc, [z3.Real("%s_z%d" % (prefix, i)) for i in range(NZ)])
    conc = dict(u=2.5 + 0 * t, v=-1.2 + 0 * t, Kx=1.6 + 0 * t, Ky=0.9 + 0 * t, Kz=0.6 + 0 * t)
    v["prof"] = tuple(tagged_array(conc[n], [z3.Real("%s_%s%d" % (prefix, n, i)) for i in range(NZ)]) for n in ("u", "v", "Kx", "Ky", "Kz"))
    return v


class Recorder:
    """recording cache: the real _compute_key, answers 'miss'"""

    def __init__(self, cache_mod):
        self.inner = cache_mod.GreensFunctionCache.__new__(cache_mod.GreensFunctionCache)
        self.gets, self.puts = [], []

    def get(self, *a, **k):
        self.gets.append(self.inner._compute_key(*a, **k).toks)
        return None

    def put(self, z, profiles, domain, modes, meas_pt, halo, precision, grid, conc, flx, *a, **k):
        self.puts.append(self.inner._compute_key(z, profiles, domain, modes, meas_pt, halo, precision, *a, **k).toks)


def record(sk, prefix, patch=None, footprint=True):
    sym, cache_mod, L = load_stack(patch)
    v = values(prefix, sk.get("halo_zero", False))
    rec = Recorder(cache_mod)
    q = np.ones(sk["shape"])
    sym.S(q, v["z"], v["prof"], (v["xmx"], v["ymx"]), LEVELS[sk["levels"]], modes=sk["modes"], meas_pt=(v["xm"], v["ym"]),
          srf_bg_conc=v["bg"], footprint=footprint, analytic=sk["analytic"], halo=v["halo"] if sk["halo_given"] else None,
          precision=sk["precision"], cache=rec)
    return rec, L


def subst_tokens(t, mapping):
    if isinstance(t, tuple) and len(t) == 2 and t[0] in ("sym", "symint"):
        return (t[0], z3.substitute(t[1], *mapping)) if mapping else t
    if isinstance(t, tuple):
        return tuple(subst_tokens(e, mapping) for e in t)
    return t


def tokens_equal(a, b):
    """z3 condition for two token structures to be equal (None = impossible)"""
    if isinstance(a, tuple) and isinstance(b, tuple):
        if len(a) == 2 and len(b) == 2 and a[0] == b[0] and a[0] in ("sym", "symint"):
            return [a[1] == b[1]]
        if len(a) == 2 and len(b) == 2 and {a[0], b[0]} == {"sym", "symint"}:
            return None  # a float and an int never render / serialise alike
        if len(a) == 2 and len(b) == 2 and {a[0], b[0]} == {"sym", "num"}:
            s, n = (a, b) if a[0] == "sym" else (b, a)
            return [s[1] == z3.RealVal(repr(float(n[1])))]
        if len(a) == 2 and len(b) == 2 and {a[0], b[0]} == {"symint", "num"}:
            s, n = (a, b) if a[0] == "symint" else (b, a)
            return [s[1] == z3.RealVal(repr(float(n[1])))]
        if len(a) != len(b):
            return None
        out = []
        for x, y in zip(a, b):
            r = tokens_equal(x, y)
            if r is None:
                return None
            out += r
        return out
    if isinstance(a, tuple) or isinstance(b, tuple):
        return None
    return [] if a == b else None


def slot_vars(prefix):
    return {s: z3.Real("%s_%s" % (prefix, s)) for s in SLOTS}


def result_slots(sk):
    """value slots the result of the request depends on"""
    s = [x for x in SLOTS if x != "halo"]
    if sk["halo_given"]:
        s.append("halo")
    return s


def domain_assumptions(va):
    # physically meaningful requests: positive extents, increasing heights, Kz > 0, halo >= 0
    # (the recorded run resolved the default halo on the path xmx > ymx)
    # moderate magnitudes so that a model can be replayed on the real solver as it stands
    c = [va["xmx"] > va["ymx"], va["ymx"] >= 40, va["xmx"] <= 400, va["xmx"] >= 60, va["halo"] >= 0, va["halo"] <= 100]
    c += [va["z0"] >= z3.RealVal("0.05"), va["z%d" % (NZ - 1)] <= 3]
    c += [va["z%d" % (i + 1)] - va["z%d" % i] >= z3.RealVal("0.1") for i in range(NZ - 1)]
    for i in range(NZ):
        c += [va["%s%d" % (n, i)] >= z3.RealVal("0.5") for n in ("Kx", "Ky", "Kz")] + [va["%s%d" % (n, i)] <= 2 for n in ("Kx", "Ky", "Kz")]
        c += [va["%s%d" % (n, i)] >= -3 for n in ("u", "v")] + [va["%s%d" % (n, i)] <= 3 for n in ("u", "v")]
    c += [va["bg"] >= -10, va["bg"] <= 10, va["xm"] >= 0, va["xm"] <= va["xmx"], va["ym"] >= 0, va["ym"] <= va["ymx"]]
    return c


def part_a(run, patch=None, account=True, sks=None):
    """-> list of counterexample records"""
    sks = sks or skeletons(run.tier)
    recs = []
    L = None
    for i, sk in enumerate(sks):
        r, L = record(sk, "a")
        if len(r.gets) != 1 or len(r.puts) != 1:
            raise HarnessError("footprint solve with a cache attached did %d lookups and %d stores" % (len(r.gets), len(r.puts)))
        recs.append((sk, r.gets[0], r.puts[0]))
    if account and L is not None:
        run.encode("bldfm.cache", "GreensFunctionCache._compute_key", L.function_source("cache", "GreensFunctionCache._compute_key"))
    # footprint=False must not touch the cache
    r0, _ = record(sks[0], "a", footprint=False)
    cex = []
    if r0.gets or r0.puts:
        cex.append(dict(obligation="dispersion_mode_bypasses_cache", gets=len(r0.gets), puts=len(r0.puts)))
    va, vb = slot_vars("a"), slot_vars("b")
    ren = [(va[s], vb[s]) for s in SLOTS]

    def solve(s, name, scn):
        if account:
            return run.solve(s, name, scn)
        s.set("timeout", 60000)
        return str(s.check())

    # identical repeat must hit: key_get(r) == key_put(r) for all values
    for sk, g, p in recs:
        eq = tokens_equal(g, p)
        s = z3.Solver()
        s.add(domain_assumptions(va))
        s.add(va["halo"] == 0 if sk.get("halo_zero") else va["halo"] > 0)
        s.add(z3.BoolVal(True) if eq is None else z3.Not(z3.And(eq)) if eq else z3.BoolVal(False))
        scn = dict(skeleton=sk, kind="identical repeat")
        if solve(s, "identical_request_is_served_from_cache", scn) == "sat":
            m = s.model()
            cex.append(dict(obligation="identical_request_is_served_from_cache", skeleton=sk, model=_model(m, va)))
    if account:
        s = z3.Solver()
        s.add(domain_assumptions(va) + domain_assumptions(vb))
        run.twin(s, "C15 request pairs")
    # completeness: a stored entry of r1 must never answer a different request r2
    shared = z3.Solver()
    shared.add(domain_assumptions(va) + domain_assumptions(vb))
    for (sk1, g1, p1), (sk2, g2, p2) in itertools.product(recs, recs):
        g2b = subst_tokens(g2, ren)
        eq = tokens_equal(p1, g2b)
        if eq is None:
            # concrete parts of the keys differ: the solver is still asked (trivially unsat)
            cond = z3.BoolVal(False)
        else:
            cond = z3.And(eq) if eq else z3.BoolVal(True)
        # halo=None means halo=max(domain): compare the resolved widths, not the spelling
        disc1 = {k: v for k, v in sk1.items() if k not in ("halo_given", "halo_zero")}
        disc2 = {k: v for k, v in sk2.items() if k not in ("halo_given", "halo_zero")}
        ha = va["halo"] if sk1["halo_given"] else va["xmx"]
        hb = vb["halo"] if sk2["halo_given"] else vb["xmx"]
        zero_side = ([va["halo"] == 0] if sk1.get("halo_zero") else [va["halo"] > 0]) + ([vb["halo"] == 0] if sk2.get("halo_zero") else [vb["halo"] > 0])
        if disc1 != disc2:
            differ = z3.BoolVal(True)
        else:
            differ = z3.Or([va[x] != vb[x] for x in SLOTS if x != "halo"] + [ha != hb])
        s = shared
        s.push()
        s.add(cond, differ)
        s.add(zero_side)
        scn = dict(stored=sk1, requested=sk2)
        r_ = solve(s, "stored_entry_never_answers_a_different_request", scn)
        m = _generic_model(s, va, vb, sk1, sk2) if r_ == "sat" else None
        s.pop()
        if r_ == "sat":
            cex.append(dict(obligation="stored_entry_never_answers_a_different_request", stored=sk1, requested=sk2,
                            model_a=_model(m, va), model_b=_model(m, vb)))
    if account:
        run.sample(dict(skeleton=recs[0][0], lookup_tokens=_show(recs[0][1]), store_tokens=_show(recs[0][2])), cap=2)
        run.extra["skeletons"] = len(recs)
    return cex


def _generic(which):
    """two generic, mutually different requests: no equal levels, no uniform shifts, non-constant profiles"""
    g = {}
    a = which == "a"
    g.update(halo=17.0 if a else 23.0, bg=0.4 if a else 0.75, xm=12.0 if a else 15.0, ym=9.0 if a else 7.0,
             xmx=60.0 if a else 72.0, ymx=44.0 if a else 50.0)  # non-square cells for every skeleton shape
    for i, zv in enumerate(np.linspace(0.05, 2.5, NZ) if a else np.linspace(0.09, 1.7, NZ) ** 1.5 + 0.3):
        g["z%d" % i] = round(float(zv), 4)
    base = dict(u=(2.5, -0.4), v=(-1.2, 0.3), Kx=(1.6, -0.2), Ky=(0.9, 0.15), Kz=(0.6, 0.25)) if a else \
        dict(u=(1.7, -0.25), v=(-0.6, 0.45), Kx=(1.1, 0.2), Ky=(1.4, -0.15), Kz=(1.0, 0.2))
    for n, (c0, c1) in base.items():
        for i in range(NZ):
            g["%s%d" % (n, i)] = round(c0 + c1 * i, 4)
    return g


def _generic_model(s, va, vb, sk1=None, sk2=None):
    """the solver's witness, steered towards generic values: each preferred value is kept when the
    query stays satisfiable with it. A witness that differs from the stored request only by, say, a uniform
    shift of the grid under constant profiles, or by a halo that pads the same whole number of cells, is a key
    collision without a visibly stale result; the generic witness shows the stale result whenever the collision
    allows one."""
    s.set("timeout", 5000)
    depth = 0

    def prefer(c):
        nonlocal depth
        s.push()
        s.add(c)
        if str(s.check()) == "sat":
            depth += 1
            return True
        s.pop()
        return False

    ga, gb = _generic("a"), _generic("b")
    first = ["xmx", "ymx"]
    for vars_, pref in ((va, ga), (vb, gb)):
        for k in first:
            prefer(vars_[k] == z3.RealVal(repr(pref[k])))
    if sk1 is not None and sk2 is not None and sk1["shape"] == sk2["shape"]:
        # the halo acts through the whole cells it pads: prefer witnesses whose pad widths differ
        ny, nx = sk1["shape"]

        def pads(v, sk):
            h = v["halo"] if sk["halo_given"] else v["xmx"]
            e = z3.RealVal("1/1000000000")
            return z3.ToInt(h * nx / v["xmx"] + e), z3.ToInt(h * ny / v["ymx"] + e)

        (pxa, pya), (pxb, pyb) = pads(va, sk1), pads(vb, sk2)
        prefer(z3.Or(pxa != pxb, pya != pyb))
    for vars_, pref in ((va, ga), (vb, gb)):
        for k in SLOTS:
            if k not in first:
                prefer(vars_[k] == z3.RealVal(repr(pref[k])))
    assert str(s.check()) == "sat"
    m = s.model()
    for _ in range(depth):
        s.pop()
    return m


def _show(toks):
    def f(t):
        if isinstance(t, tuple) and len(t) == 2 and t[0] in ("sym", "symint"):
            return str(t[1])
        if isinstance(t, tuple):
            return [f(e) for e in t]
        return repr(t)

    return f(toks)


def _model(m, vars_):
    out = {}
    for k, v in vars_.items():
        mv = m.eval(v, model_completion=True)
        try:
            out[k] = float(mv.numerator_as_long()) / float(mv.denominator_as_long())
        except Exception:
            out[k] = 0.0
    return out


# ---------------------------------------------------------------------------
# replay on the real package with a real on-disk cache


def _request(sk, model):
    """concrete solver arguments: the model's values (they satisfy domain_assumptions), stand-ins where the model is silent"""
    g = lambda k, d: float(model.get(k, d)) if model else d
    zc = np.linspace(0.05, 2.5, NZ)
    z = np.array([g("z%d" % i, zc[i]) for i in range(NZ)], float)
    prof = []
    for n, d in (("u", 2.5), ("v", -1.2), ("Kx", 1.6), ("Ky", 0.9), ("Kz", 0.6)):
        prof.append(np.array([g("%s%d" % (n, i), d) for i in range(NZ)], float))
    dom = (g("xmx", 60.0), g("ymx", 40.0))
    kw = dict(modes=tuple(sk["modes"]), meas_pt=(g("xm", 12.0), g("ym", 9.0)), srf_bg_conc=g("bg", 0.4),
              footprint=True, analytic=sk["analytic"],
              halo=(0.0 if sk.get("halo_zero") else (g("halo", 17.0) if sk["halo_given"] else None)),
              precision=sk["precision"])
    return np.ones(tuple(sk["shape"])), z, tuple(prof), dom, LEVELS[sk["levels"]], kw


def replay(rec):
    import tempfile

    if "call" in rec:
        if rec.get("obligation", "").startswith("check_crash"):
            return real_truncation_replay()
        return chrun.replay_record(rec, os.path.join(HERE, "ch"))
    real = kindl.real_pkg()
    import bldfm.cache as RC

    class Counting(RC.GreensFunctionCache):
        hits = 0

        def get(self, *a, **k):
            r = super().get(*a, **k)
            Counting.hits += r is not None
            return r

    S = real.solver.steady_state_transport_solver
    d = tempfile.mkdtemp(prefix="vfc15_")
    cache = Counting(d)
    ob = rec["obligation"]
    out = dict(obligation=ob)

    def same(a, b):
        return all(np.shape(x) == np.shape(y) and np.allclose(np.asarray(x, float), np.asarray(y, float), rtol=1e-9, atol=1e-12) for x, y in zip(a[1:], b[1:]))

    if ob == "identical_request_is_served_from_cache":
        q, z, prof, dom, lv, kw = _request(rec["skeleton"], rec.get("model"))
        S(q, z, prof, dom, lv, cache=cache, **kw)
        h0 = Counting.hits
        S(q, z, prof, dom, lv, cache=cache, **kw)
        out.update(hits_on_repeat=Counting.hits - h0, confirmed=bool(Counting.hits == h0))
        return out
    if ob == "dispersion_mode_bypasses_cache":
        out.update(confirmed=False)
        return out
    q1, z1, p1, d1, l1, k1 = _request(rec["stored"], rec.get("model_a"))
    q2, z2, p2, d2, l2, k2 = _request(rec["requested"], rec.get("model_b"))
    S(q1, z1, p1, d1, l1, cache=cache, **k1)
    h0 = Counting.hits
    r2 = S(q2, z2, p2, d2, l2, cache=cache, **k2)
    ref = S(q2, z2, p2, d2, l2, cache=None, **k2)
    stale = not same(r2, ref)
    out.update(served_from_cache=bool(Counting.hits > h0), stale=bool(stale), confirmed=bool(stale))
    return out


def real_truncation_replay():
    """real files: an entry written by the real put(), truncated at every 1/16th; the next identical
    request must be served (recomputed) without raising, and an interrupted put must not leave a
    partial file under the entry's name"""
    import glob
    import tempfile

    real = kindl.real_pkg()
    import bldfm.cache as RC

    S = real.solver.steady_state_transport_solver
    d = tempfile.mkdtemp(prefix="vfc15_")
    cache = RC.GreensFunctionCache(d)
    q, z, prof, dom, lv, kw = _request(dict(shape=(4, 6), levels=1, modes=(6, 4), precision="double", analytic=False, halo_given=True), None)
    ref = S(q, z, prof, dom, lv, cache=cache, **kw)
    files = glob.glob(os.path.join(d, "*.npz"))
    bad = []
    if len(files) != 1:
        return dict(confirmed=False, note="expected one cache file, found %d" % len(files))
    f = files[0]
    blob = open(f, "rb").read()
    for k in range(0, 16):
        with open(f, "wb") as fh:
            fh.write(blob[: len(blob) * k // 16])
        try:
            r = S(q, z, prof, dom, lv, cache=RC.GreensFunctionCache(d), **kw)
            if not np.allclose(np.asarray(r[2], float), np.asarray(ref[2], float)):
                bad.append([k, "wrong result"])
        except Exception as e:
            bad.append([k, type(e).__name__])
    # damaged body, intact end-of-file directory (np.load opens it lazily; the member read fails)
    for pos in sorted({len(blob) // 7, len(blob) // 3, len(blob) // 2, (2 * len(blob)) // 3, 87 if len(blob) > 200 else 1}):
        dmg = bytearray(blob)
        for j in range(pos, min(pos + 16, len(blob) - 64)):
            dmg[j] ^= 0xFF
        with open(f, "wb") as fh:
            fh.write(bytes(dmg))
        try:
            r = S(q, z, prof, dom, lv, cache=RC.GreensFunctionCache(d), **kw)
            # a flipped payload byte that every check accepts is served as stored: only raising is the violation here
        except Exception as e:
            bad.append(["damaged at %d" % pos, type(e).__name__])
    # interrupted write: np.savez dies half way
    orig = np.savez

    def dying(path, **arrays):
        orig(path, **arrays)
        p = str(path) if str(path).endswith(".npz") else str(path) + ".npz"
        blob2 = open(p, "rb").read()
        open(p, "wb").write(blob2[: len(blob2) // 2])
        raise KeyboardInterrupt("killed during the write")

    d2 = tempfile.mkdtemp(prefix="vfc15_")
    RC.np.savez = dying
    try:
        try:
            S(q, z, prof, dom, lv, cache=RC.GreensFunctionCache(d2), **kw)
        except KeyboardInterrupt:
            pass
    finally:
        RC.np.savez = orig
    try:
        S(q, z, prof, dom, lv, cache=RC.GreensFunctionCache(d2), **kw)
    except Exception as e:
        bad.append(["after interrupted write", type(e).__name__])
    return dict(truncation_points_failing=bad, confirmed=bool(bad))


CANARIES = [
    ("key_without_levels", {"solver": [("            tuple(np.atleast_1d(levels).tolist()),\n", "")]}),
    ("key_without_background", {"solver": [("            float(srf_bg_conc),\n", "")]}),
    ("key_with_unresolved_halo_on_lookup", {"solver": [("z, profiles, domain, modes, meas_pt, cache_halo, precision, cache_extra\n        )\n        if cached", "z, profiles, domain, modes, meas_pt, halo, precision, cache_extra\n        )\n        if cached")]}),
    ("key_skips_Kx_Ky", {"cache": [("        for arr in profiles:\n", "        for arr in (profiles[0], profiles[1], profiles[4]):\n")]}),
    ("key_hashes_first_three_heights", {"cache": [("h.update(np.asarray(z).tobytes())", "h.update(np.asarray(z)[:3].tobytes())")]}),
    ("extra_not_hashed", {"cache": [("        h.update(repr(tuple(extra)).encode())\n", "")]}),
]


def canary_job(args):
    from ..core import Run

    name, patch = args
    run = Run(PID)
    run.tier = "quick"
    try:
        # patch must apply to the private copies
        global record
        orig = record
        try:
            globals()["record"] = lambda sk, prefix, patch_=None, footprint=True: orig(sk, prefix, patch, footprint)
            cex = part_a(run, account=False)
        finally:
            globals()["record"] = orig
    except KeyError:
        return name, False, False
    except Exception:
        return name, True, True
    return name, True, bool(cex)


def main(run):
    sig = inspect.signature(kindl.Sym(record=False).S)
    missing = [p for p in sig.parameters if p not in CLASSIFIED]
    if missing:
        raise HarnessError("solver parameters not classified by the C15 harness: %s" % missing)
    run.explanation = (
        "(a) the real solver + the real _compute_key over a token-recording hashlib stub, one run per request skeleton with "
        "identity-tagged values; z3 decides for every ordered pair of skeletons whether a stored entry can answer a different "
        "request (different skeleton, or any result-determining value different) and for every skeleton whether an identical repeat "
        "can miss. (b) CrossHair over put/get on a file-system model with symbolic crash step and failure kind: after restart get "
        "returns None or a complete value and never raises."
    )
    run.assumptions = [
        "SHA-256 is collision-free; equal update() token sequences <=> equal keys (concatenation ambiguities across arrays of different length are outside the model; all requests use 4 vertical nodes)",
        "tobytes() of a float array = its values (shape dropped); str(x)/repr(x) injective on floats",
        "np.load of a complete file returns what np.savez stored; a truncated or damaged file fails with BadZipFile, EOFError, ValueError or OSError either when it is opened or (lazy .npz) when a member is read; os.replace is atomic",
        "the VALUES of srf_flx are not result-determining in footprint mode (C04); `cache` itself is not",
    ]
    run.extra["signature_classification"] = CLASSIFIED
    cex = part_a(run)
    for c in cex[:6]:
        res = replay(c)
        c = dict(c, property=PID, replay=res, cmd="./check C15 --replay <this file>")
        run.report(c, bool(res.get("confirmed")))
    run.bounds = dict(skeletons=run.extra.get("skeletons"), shapes=SHAPES, levels=LEVELS, modes=MODES, vertical_nodes=NZ,
                      value_slots=len(SLOTS), crash_model="put: savez(tmp) partial->complete, replace, unlink; crash before any step")
    # (b)
    quick = run.tier == "quick"
    res = chrun.run_conditions(run, os.path.join(HERE, "ch", "c15.py"), {}, ["check_crash_no_old_entry", "check_crash_old_complete", "check_crash_old_truncated", "check_roundtrip"], ["twin_crash"], 150 if quick else 600, PID,
                               {"check_crash_no_old_entry": "crash at a symbolic step of put: after restart get returns None or the complete new value, never raises",
                                "check_crash_old_complete": "same with a complete older entry under the key: get returns the old or the new value",
                                "check_crash_old_truncated": "same with a truncated older entry (symbolic failure kind of np.load): treated as a miss",
                                "check_roundtrip": "put then get returns exactly what was stored; get of an absent key is None"})
    for fn, rec, ok in res:
        if fn.startswith("check_crash"):
            rr = real_truncation_replay()
            rec["replay_real_files"] = rr
            ok = bool(rr.get("confirmed"))
            run.replays["attempted"] += 0
        run.report(rec, ok)
    import concurrent.futures as cf
    import multiprocessing as mp

    with cf.ProcessPoolExecutor(max_workers=len(CANARIES), mp_context=mp.get_context("spawn")) as pool:
        for name, applicable, caught in pool.map(canary_job, CANARIES):
            if not applicable:
                run.note("canary %s not applicable to the current source" % name)
                continue
            run.canaries["total"] += 1
            if caught:
                run.canaries["caught"] += 1
            else:
                run.canaries["missed"].append(name)
                run.errors.append("canary %s was not noticed by the harness" % name)
