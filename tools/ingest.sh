#!/bin/bash
# tools/ingest.sh <round dir, e.g. /tmp/mut3> <suffix, e.g. c> <pid>...: copy a sub-agent's patch + demo into seeded/<pid>_<suffix>/ and confirm it.
R=$1; SFX=$2; shift 2
for P in "$@"; do
  D=/verif/seeded/${P}_$SFX; mkdir -p $D
  (cd $R/$P && git diff -- src) > $D/patch.diff
  cp $R/$P/demo_$P.py $D/demo.py
  sed -i "s#$R/$P/src#/repo/src#g; s#$R/$P#/repo#g" $D/demo.py
  /verif/tools/confirm_seeded.sh ${P}_$SFX
done
