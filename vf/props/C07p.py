"""C07(c): similarity with a symbolic factor, exact arithmetic."""


def run_exact(run):
    from . import _c07_exact

    _c07_exact.run_exact(run)
    from . import C05

    L, mod = C05.load_exact()
    run.encode("bldfm.solver", "ivp_solver (exact mode, symbolic similarity factor)", L.function_source("solver", "ivp_solver"))
