"""C07(c): similarity with a symbolic factor, exact arithmetic (placeholder
until the exact engine lands: records nothing)."""


def run_exact(run):
    try:
        from ..symnp import exact  # noqa: F401
    except Exception:
        run.note("C07(c) exact-arithmetic similarity obligations: engine not built yet")
        return
    from . import _c07_exact

    _c07_exact.run_exact(run)
