"""C05 - uniform profiles: analytic mode is the closed form; numerics reach
third order.

(a) Kind L.  The analytic branch of the real solver runs on affine forms
    (symbolic source and background, constant profiles) and z3 decides equality
    with an independent closed-form half-space oracle written against the PDE
    (per retained wavenumber: q^ e^{-lambda h}, p^ = q^/(Kz lambda), linear mean
    profile; same padding, retained wavenumber set, shift and crop; direct
    frequency indexing, no fftshift/pad tricks), executed on the same
    coefficient tensors.
(b) Kind P, exact arithmetic, NO bound on the reals.  The body of the sweep in
    the real ivp_solver is executed for one layer with symbolic
    Kx, Ky, Kz, u, v, Lx, Ly, dz (Kz > 0, dz > 0) from the unit initial states;
    z3 decides that the four entries of the resulting step matrix equal
    sum_{j<=3} (M dz)^j / j!  with M = [[0, -1/Kz], [T, 0]],
    T = -(Kx Lx^2 + Ky Ly^2) - i (u Lx + v Ly): the third-order Taylor
    polynomial of the exact layer propagator exp(M dz) - eight real polynomial
    identities.  Two layers: the two-layer matrix is the product of the
    one-layer matrices in bottom-up order.
(c) The statement 'error falls about eightfold per halving' follows from (b)
    (local error O(dz^4)); it is used only in the replay of a failed (b):
    real solver at n, 2n, 4n against the analytic mode; violation when the
    observed ratio is < 6."""
import functools
from fractions import Fraction as F

import numpy as np
import z3

from ..symnp import affine as af
from ..symnp import exact as ex
from ..symnp import kindl
from ..symnp.loader import Loader

PID = "C05"


# ---------------------------------------------------------------------------
# (a) closed-form oracle on coefficient tensors


def closed_form(Cq, bgvec, z, prof, dom, levels, modes, meas, footprint, halo):
    u, v, Kx, Ky, Kz = (float(np.asarray(a, float)[0]) for a in prof)
    ny, nx, V = Cq.shape
    xmx, ymx = dom
    dx, dy = xmx / nx, ymx / ny
    h_ = max(xmx, ymx) if halo is None else halo
    px, py = int(h_ / dx + 1e-9), int(h_ / dy + 1e-9)
    nxe, nye = nx + 2 * px, ny + 2 * py
    nlx, nly = modes
    if nlx > nxe or nly > nye:
        nlx, nly = nxe, nye
    pad = np.zeros((nye, nxe, V), complex)
    pad[py:py + ny, px:px + nx] = Cq
    Q = np.fft.fft2(pad, axes=(0, 1), norm="forward")
    if footprint:
        Q = np.zeros((nye, nxe, V), complex)
        Q[:, :, 0] = 1.0 / (nxe * nye)
    kxs = np.fft.fftfreq(nlx, d=1.0 / nlx).round().astype(int)
    kys = np.fft.fftfreq(nly, d=1.0 / nly).round().astype(int)
    xm, ym = meas
    hs = np.asarray(z, float)[np.asarray(levels)] - float(z[0])
    outP = np.zeros((len(hs), nye, nxe, V), complex)
    outQ = np.zeros((len(hs), nye, nxe, V), complex)
    for ky in kys:
        for kx in kxs:
            l = 2.0 * np.pi * kx / (dx * nxe)
            m = 2.0 * np.pi * ky / (dy * nye)
            q0 = Q[ky % nye, kx % nxe]
            if footprint:
                ph = np.exp(1j * (l * (xm + px * dx) + m * (ym + py * dy)))
            elif xm ** 2 + ym ** 2 > 0:
                ph = np.exp(1j * (l * (xm - xmx / 2) + m * (ym - ymx / 2)))
            else:
                ph = 1.0
            for k, h in enumerate(hs):
                if kx == 0 and ky == 0:
                    qh = q0
                    phat = bgvec - q0 * h / Kz
                else:
                    lam = np.sqrt((Kx * l * l + Ky * m * m + 1j * (u * l + v * m)) / Kz)
                    qh = q0 * np.exp(-lam * h)
                    phat = qh / (Kz * lam)
                outP[k, ky % nye, kx % nxe] += phat * ph
                outQ[k, ky % nye, kx % nxe] += qh * ph
    if footprint:
        P = np.fft.fft2(outP, axes=(1, 2), norm="backward").real
        Qf = np.fft.fft2(outQ, axes=(1, 2), norm="backward").real
    else:
        P = np.fft.ifft2(outP, axes=(1, 2), norm="forward").real
        Qf = np.fft.ifft2(outQ, axes=(1, 2), norm="forward").real
    return P[:, py:py + ny, px:px + nx], Qf[:, py:py + ny, px:px + nx]


def body(run, sym, sc):
    sp = sym.sp
    ny, nx = sc["ny"], sc["nx"]
    z, prof = kindl.profiles("P1", sc["n"])
    q = sym.field((ny, nx))
    bg = sym.var("bg")
    dom = kindl.dom_of(sc)
    for mode, kw, meas in (
        ("dispersion", dict(srf_bg_conc=bg), (0.0, 0.0)),
        ("recentred", dict(srf_bg_conc=bg, meas_pt=(sc["dx"] * (nx - 1), sc["dy"])), (sc["dx"] * (nx - 1), sc["dy"])),
        ("footprint", dict(srf_bg_conc=bg, footprint=True, meas_pt=(0.37 * sc["dx"], sc["dy"] * (ny - 1) + 0.2)), (0.37 * sc["dx"], sc["dy"] * (ny - 1) + 0.2)),
    ):
        g, c, f = kindl.sym_solve(sym, sc, q, analytic=True, zprof=(z, prof), **kw)
        c, f = kindl.lv3(c, sc), kindl.lv3(f, sc)
        Cq = af.coeffs(q, sp)
        bgvec = np.zeros(sp.dim, complex)
        bgvec[sp.names.index("bg")] = 1.0
        P, Qf = closed_form(Cq, bgvec, z, prof, dom, sc["levels"], sc["modes"], meas, mode == "footprint", sc["halo"])
        scn = dict(sc, mode=mode, pid="P1")
        for nm, a, b in (("analytic_equals_closed_form_conc", c, af.from_coeffs(P.astype(complex), sp)),
                         ("analytic_equals_closed_form_flux", f, af.from_coeffs(Qf.astype(complex), sp))):
            vals = kindl.forms_equal(run, sp, a, b, nm, scn)
            if vals is not None:
                run.cex.append(dict(scenario=scn, obligation=nm, q=kindl.field_from_model(vals, (ny, nx)).tolist(), bg=vals.get("bg", 0.0)))
    run.sample(dict(scenario=sc, variables=sp.dim - 1), cap=2)


def _nonaffine(sc, e):
    return [dict(scenario=dict(sc, mode="dispersion"), obligation="analytic_equals_closed_form(data-dependent branch)", special=str(e))]


worker = functools.partial(kindl.guarded_worker, PID, body, on_nonaffine=_nonaffine)


# ---------------------------------------------------------------------------
# (b) exact step matrix


def load_exact(patch=None):
    env = ex.exact_env(fft=ex.dft2_exact)
    env["patch"] = patch or {}
    L = Loader(env)
    return L, L.load("solver")


def mm(A, B):
    return [[A[i][0] * B[0][j] + A[i][1] * B[1][j] for j in range(2)] for i in range(2)]


def taylor3(M, dz):
    I = [[ex.C(1, 0), ex.C(0, 0)], [ex.C(0, 0), ex.C(1, 0)]]
    M2 = mm(M, M)
    M3 = mm(M2, M)
    return [[I[i][j] + M[i][j] * dz + M2[i][j] * (dz * dz) * ex.R(F(1, 2)) + M3[i][j] * (dz * dz * dz) * ex.R(F(1, 6))
             for j in range(2)] for i in range(2)]


def layer_M(prof, i, lx, ly):
    u, v, Kx, Ky, Kz = (p[i] for p in prof)
    T = ex.C(-(Kx * lx * lx + Ky * ly * ly), -(u * lx + v * ly))
    return [[ex.C(0, 0), ex.C(-(ex.R(1) / Kz), 0)], [T, ex.C(0, 0)]]


def exact_step(mod, nlayers):
    """Run the real ivp_solver over nlayers layers of UNIFORM profiles from the
    two unit initial states; return (ctx, got 2x2, expected 2x2)."""
    c = ex.new_ctx()
    vals = [c.real(n) for n in "u v Kx Ky Kz".split()]
    prof = tuple(ex.xarr([v] * (nlayers + 1)) for v in vals)
    z0 = c.real("z0")
    dzs = [c.real("dz%d" % i) for i in range(nlayers)]
    zz = [z0]
    for d in dzs:
        zz.append(zz[-1] + d)
    z = ex.xarr(zz)
    Lx, Ly = ex.xarr([c.real("Lx")]), ex.xarr([c.real("Ly")])
    c.assume += [vals[4].v > 0] + [d.v > 0 for d in dzs]
    cols = []
    for (p0, q0) in ((1, 0), (0, 1)):
        r = mod.ivp_solver((ex.xarr([ex.C(p0, 0)]), ex.xarr([ex.C(q0, 0)])), prof, z, [nlayers], Lx, Ly)
        cols.append((r[0][0], r[1][0], r[2][0][0], r[3][0][0]))
    got = [[cols[0][0], cols[1][0]], [cols[0][1], cols[1][1]]]
    got_lvl = [[cols[0][2], cols[1][2]], [cols[0][3], cols[1][3]]]
    E = None
    for i in range(nlayers):
        Ei = taylor3(layer_M(prof, i, Lx[0], Ly[0]), dzs[i])
        E = Ei if E is None else mm(Ei, E)  # bottom-up
    return c, got, got_lvl, E


def exact_part(run, patch=None, account=True):
    """-> list of failed entries [(nlayers, i, j)]"""
    L, mod = load_exact(patch)
    if account:
        run.encode("bldfm.solver", "ivp_solver (exact mode)", L.function_source("solver", "ivp_solver"))
    failed = []
    for nl in (1, 2):
        c, got, got_lvl, E = exact_step(mod, nl)
        s0 = ex.solver_for(c)
        if account:
            run.twin(s0, "C05(b) %d layer(s)" % nl)
        for i in range(2):
            for j in range(2):
                for what, G in (("final_state", got), ("stored_level", got_lvl)):
                    s = ex.solver_for(c)
                    s.add(ex.neq(G[i][j], E[i][j]))
                    name = "step_matrix_is_taylor3_of_exp(M dz)"
                    scn = dict(layers=nl, entry=["a", "b", "c", "d"][2 * i + j], observed=what)
                    if account:
                        r = run.solve(s, name, scn)
                    else:
                        s.set("timeout", 60000)
                        r = str(s.check())
                    if r == "sat":
                        failed.append((nl, i, j, what))
    return failed


def convergence_ratios():
    """real solver vs analytic at n, 2n, 4n (resolved regime)"""
    real = kindl.real_pkg()
    S = real.solver.steady_state_transport_solver
    rng = np.random.default_rng(0)
    q = rng.random((8, 8))
    errs = []
    for n in (8, 16, 32, 64):
        z = np.linspace(0.1, 10.0, n + 1)
        o = np.ones(n + 1)
        p = (3.0 * o, 1.0 * o, 2.0 * o, 1.5 * o, 2.0 * o)
        g, c, f = S(q, z, p, (400.0, 400.0), n, modes=(8, 8), halo=0.0, precision="double")
        g, ca, fa = S(q, z, p, (400.0, 400.0), n, modes=(8, 8), halo=0.0, precision="double", analytic=True)
        errs.append(float(max(np.abs(f - fa).max() / np.abs(fa).max(), np.abs(c - ca).max() / np.abs(ca).max())))
    return errs, [errs[i] / errs[i + 1] for i in range(3)]


def replay(rec):
    ob = rec["obligation"]
    if ob.startswith("step_matrix"):
        errs, ratios = convergence_ratios()
        return dict(obligation=ob, errors=errs, ratios=ratios, need=">= 6 per halving", confirmed=bool(min(ratios) < 6.0))
    sc = rec["scenario"]
    ny, nx = sc["ny"], sc["nx"]
    if "q" not in rec:
        best = None
        for qf in kindl.special_fields(ny, nx):
            r_ = replay(dict(rec, q=qf.tolist()))
            if best is None or r_["max_rel_discrepancy"] > best["max_rel_discrepancy"]:
                best = dict(r_, special_source=qf.tolist())
        return best
    tol = kindl.REPLAY_TOL[sc["precision"]]
    q = np.array(rec["q"], float)
    bg = float(rec.get("bg", 0.3))
    z, prof = kindl.profiles("P1", sc["n"])
    mode = sc["mode"]
    meas = {"dispersion": (0.0, 0.0), "recentred": (sc["dx"] * (nx - 1), sc["dy"]), "footprint": (0.37 * sc["dx"], sc["dy"] * (ny - 1) + 0.2)}[mode]
    g, c, f = kindl.real_solve(sc, q, analytic=True, zprof=(z, prof), srf_bg_conc=bg, meas_pt=meas, footprint=(mode == "footprint"))
    Cq = np.zeros((ny, nx, 2), complex)
    Cq[:, :, 0] = q
    bgvec = np.array([bg, 0.0], complex)
    P, Qf = closed_form(Cq, bgvec, z, prof, kindl.dom_of(sc), sc["levels"], sc["modes"], meas, mode == "footprint", sc["halo"])
    c, f = kindl.lv3(c, sc), kindl.lv3(f, sc)
    worst = max(kindl.rel_err(c - bg, P[..., 0] - bg), kindl.rel_err(f, Qf[..., 0]))
    return dict(obligation=ob, max_rel_discrepancy=worst, tolerance=tol, confirmed=bool(worst > tol))


CANARIES_A = [
    ("analytic_decay_sign", {"solver": [("np.exp(-eigval * h[:, np.newaxis])", "np.exp(-eigval.conj() * h[:, np.newaxis])")]}),
    ("analytic_mean_first_level_only", {"solver": [("tfftp[:, 0, 0] = p000 - tfftq0[0, 0] * Kzinv * h", "tfftp[:, 0, 0] -= tfftq0[0, 0] * Kzinv * h")]}),
    ("analytic_heights_from_zero", {"solver": [("h = z[levels] - z[0]", "h = z[levels]")]}),
    ("analytic_conc_uses_Kz_not_inverse", {"solver": [("tfftp[:, msk] = tfftq[:, msk] * Kzinv / eigval", "tfftp[:, msk] = tfftq[:, msk] / eigval")]}),
]
CANARIES_B = [
    ("b_cubic_sign", {"solver": [("b = -Kzinv * dzi + 1.0 / 6.0", "b = -Kzinv * dzi - 1.0 / 6.0")]}),
    ("c_cubic_missing", {"solver": [("c = Ti * dzi - 1.0 / 6.0 * Kzinv * Ti**2 * dzi**3", "c = Ti * dzi")]}),
    ("dz0_for_every_layer", {"solver": [("dzi = dz[i]", "dzi = dz[0]")]}),
    ("update_order", {"solver": [("        dum = a * fftpi + b * fftqi\n        fftqi = c * fftpi + d * fftqi\n        fftpi = dum", "        fftpi = a * fftpi + b * fftqi\n        fftqi = c * fftpi + d * fftqi")]}),
]


def canary_probe(sym, sc):
    return kindl.probe_body(PID, body, sym, sc)


def main(run):
    run.explanation = (
        "(a) the analytic branch of the real solver on affine forms equals an independent closed-form oracle for all "
        "sources and backgrounds (dispersion, re-centred, footprint with an off-grid tower; all halo classes, mode "
        "truncations, multi-level); (b) exact arithmetic, unbounded reals: the step matrix produced by the real "
        "ivp_solver for one and two layers equals the third-order Taylor polynomial of exp(M dz) (product in bottom-up "
        "order for two layers) - z3 decides eight real polynomial identities per layer count, also for the state "
        "stored at the output level."
    )
    run.assumptions = [
        "(a) real arithmetic with the production doubles as coefficients; tolerance 1e-9; pyfftw = mathematical DFT",
        "(b) exact rationals for the literals of the source (1.0/6.0 is 1/6), Kz > 0, dz > 0; numba preserves Python semantics",
        "the asymptotic statement 'eightfold per halving' itself is outside the claim; it is implied by (b) and checked only in replay",
    ]
    kindl.validate_encoding(run)
    scs = [dict(s, pid="P1") for s in kindl.base_scenarios(run.tier, run.seed)]
    for s in scs:
        s["levels"] = s["levels"] if len(s["levels"]) > 1 else [s["n"], 1 % (s["n"] + 1)]
    run.bounds = dict(part_a=dict(grids=sorted({(s["ny"], s["nx"]) for s in scs}), scenarios=len(scs), profiles="constant anisotropic (P1)"),
                      part_b="all reals (Kz > 0, dz > 0), 1 and 2 layers, one wavenumber pair",
                      outside="(a) grids > 8x8; rounding. (b) more than 2 layers (the sweep body is the same for every layer)")
    cex = run.pmap(worker, scs)
    kindl.handle_cex(run, PID, cex, replay)
    failed = exact_part(run)
    if failed:
        rec = dict(obligation="step_matrix_is_taylor3_of_exp(M dz)", failed_entries=[list(map(str, f)) for f in failed], property=PID)
        res = replay(rec)
        rec["replay"] = res
        run.report(rec, res["confirmed"])
    cscs = [dict(s_, pid="P1", levels=(s_["levels"] if len(s_["levels"]) > 1 else [s_["n"], 1 % (s_["n"] + 1)])) for s_ in kindl.base_scenarios("quick", 0)]
    pick = [s for s in cscs if s["halo"] not in (0.0,) and len(s["levels"]) > 1][:2]
    kindl.run_canaries(run, "vf.props.C05:canary_probe", CANARIES_A, pick)
    for name, patch in CANARIES_B:
        try:
            f = exact_part(run, patch=patch, account=False)
        except KeyError:
            run.note("canary %s not applicable" % name)
            continue
        except Exception:
            f = ["raised"]
        run.canaries["total"] += 1
        if f:
            run.canaries["caught"] += 1
        else:
            run.canaries["missed"].append(name)
            run.errors.append("canary %s was not noticed by the harness" % name)
