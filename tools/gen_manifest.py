#!/usr/bin/env python3
"""Regenerate /verif/MANIFEST.json from the per-property table below.
A property is claimed iff vf/props/<id>.py exists and it has an entry in CLAIMS."""
import json
import os

HERE = os.path.dirname(os.path.dirname(os.path.abspath(__file__)))

CH_NOTE = "Trusted: CrossHair 0.0.110 + z3 ('Confirmed over all paths' only; 'Not confirmed' / 'Unable to meet precondition' are inconclusive); the recording / contract stubs listed in the evidence; bounds in the preconditions; counterexamples are re-run concretely in a fresh process before being reported."

KINDL_NOTE = (
    "Trusted: z3 5.1; the shim's stubs (pyfftw = mathematical DFT, numba preserves Python "
    "semantics, logging dropped); real arithmetic with the production doubles as coefficients "
    "(no IEEE rounding), tolerance 1e-9 of the largest coefficient; sizes/profiles/halo/modes are "
    "concrete per scenario (bounds listed in the evidence); sat answers are replayed on the real package."
)

CLAIMS = {
    "C02": dict(
        technique="symbolic execution of solver.py on affine forms + z3 (QF_LRA) form-equality queries",
        text="Bounded symbolic check: for each concrete (grid, profile, layers, halo, modes, levels, precision) "
        "scenario the real solver source is executed with every surface-flux entry and the background as "
        "solver variables; z3 decides for ALL fields whether sum(q0*footprint) and the forward run at the tower "
        "are the same linear form (flux and concentration, every level, every on-grid point of small grids). "
        "Covers all fields, not sampled ones; sizes and profile families are the stated bounds.",
        ref="7/C02",
        note=KINDL_NOTE,
    ),
    "C03": dict(
        technique="symbolic execution of solver.py on affine forms (+ phase variables for a continuous tower) + z3 (QF_LRA) queries",
        text="Bounded symbolic check: per scenario z3 decides for ALL source fields and backgrounds that the domain-mean flux at every "
        "level is the mean source; that the mean concentration is 1*background - R*mean source with R found by the solver inside the "
        "per-layer-group Riemann bracket of int dz/Kz; that footprint weights sum to one for a CONTINUOUS symbolic tower position; and "
        "that halo=h equals explicit zero padding + crop in dispersion and footprint mode (all six halo classes).",
        ref="7/C03", note=KINDL_NOTE + " Any resistance quadrature between left and right Riemann sums is accepted."),
    "C04": dict(
        technique="symbolic execution of solver.py on affine forms + z3 (QF_LRA) queries; NonAffine events replayed",
        text="Bounded symbolic check: the solver run on affine forms in every source entry and the background stays affine with a "
        "zero constant term (= linear), the flux has no background dependence, the background is a uniform offset of exactly one, "
        "and footprint-mode results do not depend on the source values; numerical and analytic mode; all fields, not samples.",
        ref="7/C04", note=KINDL_NOTE),
    "C06": dict(
        technique="symbolic execution of solver.py on affine forms (+ phase variables) + z3 (QF_LRA) queries",
        text="Bounded symbolic check: for all sources, z3 decides that rolling the source rolls the fields (5 shifts incl. wrap), that "
        "moving a CONTINUOUS symbolic tower by whole cells rolls the footprint, that the footprint is the point reflection of the "
        "unit-source response (symbolic amplitude), and that dispersion-mode re-centring is the roll putting the point at the centre.",
        ref="7/C06", note=KINDL_NOTE),
    "C07": dict(
        technique="symbolic execution of solver.py on affine forms + z3 (QF_LRA) spectral form-equality queries",
        text="Bounded symbolic check: mirrored / transposed problems give mirrored / transposed fields for all sources (compared mode "
        "by mode with the Nyquist components removed, dispersion incl. re-centred, and footprint mode); similarity under length and "
        "speed scalings for factors 1e-3..1e3.",
        ref="7/C07", note=KINDL_NOTE),
    "C10": dict(
        technique="symbolic execution of solver.py on affine forms + z3 (QF_LRA) queries; exhaustive level orderings",
        text="Bounded symbolic check, exhaustive over every ordered selection of distinct levels (up to 4/5 levels of a 4-6 node grid, "
        "plus the real top node), list/ndarray/scalar arguments, both modes, numerical and analytic: z3 decides that slice k is the "
        "single-level solution for levels[k] and slice levels[k] of the full column, for all sources; heights checked.",
        ref="7/C10", note=KINDL_NOTE + " Tuples are not asserted (z[levels] rejects them; the property names scalar/list/array)."),
    "C11": dict(
        technique="symbolic execution of solver.py on affine forms + z3 (QF_LRA) queries over an exhaustive small-size sweep",
        text="Bounded symbolic check over every grid 1..6 (7 thorough) squared incl. odd/one-wide, three halo classes, six even mode "
        "requests, both modes: raise-or-correct; shape and coordinates; registration via the reciprocity identity and the all-modes "
        "surface identity; exact low-pass behaviour in Fourier space; clamp equivalence - all for every source field.",
        ref="7/C11", note=KINDL_NOTE + " The cut-off row/column and the mixed clamp case are not asserted."),
    "C01": dict(
        technique="symbolic execution of ivp_solver / the whole solver in exact arithmetic (z3 NRA, power-series thicknesses) + affine forms for the upper boundary",
        text="The convergence RATE is outside reach of an SMT solver; decided are the obligations the convergence theorem needs: "
        "O1 per-layer consistency of the real ivp_solver for all real profile values (exact arithmetic, formal layer thicknesses: "
        "order-0, order-1 and the cross term of two layers, stored-level states); O2 prescribed flux at the surface from the whole "
        "solver run exactly on a 4x4 grid; O3 the decaying constant-coefficient continuation at the top node for concrete profile "
        "families and all sources; O4 with a halo (every class) the result equals the halo-0 result on the explicitly padded source for all sources, so the components are those of the padded periodic grid. A failed obligation is replayed against a DOP853 Riccati reference (error must shrink 2.5x when dz is quartered).",
        ref="7/C01", note="Trusted: z3; exact rationals for source literals; csqrt as uninterpreted principal root; stubs as in C02. The theorem "
        "'consistent+stable => convergent' and the constants are outside the claim."),
    "C05": dict(
        technique="symbolic execution: analytic branch on affine forms vs an independent closed-form oracle (z3 QF_LRA); ivp_solver step matrix in exact arithmetic (z3 NRA, unbounded reals)",
        text="(a) for all sources/backgrounds the analytic mode equals an independent closed-form half-space oracle through the same padding, "
        "truncation, shift and crop (dispersion, re-centred, off-grid footprint; all halo classes; multi-level). (b) for ALL real Kx,Ky,Kz>0,u,v,"
        "wavenumbers, dz>0 the step matrix of the real ivp_solver equals the third-order Taylor polynomial of exp(M dz), for one layer and as a "
        "bottom-up product for two layers. The 'eightfold per halving' statement follows from (b) and is measured only in replay.",
        ref="7/C05", note=KINDL_NOTE + " Part (b): exact rationals for literals; no bound on the reals."),
    "C12": dict(
        technique="symbolic execution with persistent module state on affine forms + precision-taint model; z3 (QF_LRA) form equality per history",
        text="Python layer only: for every history of <= 2 (quick) / 3 (thorough) operations over 6 solves x NUM_THREADS{1,2,4,8} x FFT-manager reset, "
        "the last solve equals the same solve in a freshly loaded package as linear forms in the symbolic source, with identical per-cell precision "
        "taint (value passed through single-precision storage), shapes and coordinates. Bit-identity, cross-thread 1e-12, FFTW/numba internals and "
        "the magnitude of single-precision rounding are OUTSIDE the claim (FFI / OS threads / IEEE rounding).",
        ref="7/C12", note=KINDL_NOTE + " pyfftw is modelled as thread-independent; numba as semantics-preserving for both parallel flags."),
    "C13": dict(engine="crosshair",
        technique="CrossHair symbolic execution (z3 per path) of interface.run_bldfm_single and the config parser with recording stubs at the numeric leaves",
        text="Bounded symbolic check: for all option values (tokens), all three forcing patterns (ustar / z0 / both: z0 takes precedence), three-entry met lists with "
        "symbolic entries and step index, explicit / full / default levels, user-supplied flux or not, cache or not, the four numeric leaves are called with exactly "
        "what the documented pipeline prescribes and the result carries that step's timestamp/params and the tower's name/coordinates; a YAML file and the equal "
        "dictionary parse to equal configurations with the documented defaults (presence of every optional key symbolic).",
        ref="7/C13", note=CH_NOTE),
    "C14": dict(engine="crosshair",
        technique="CrossHair symbolic execution (z3 per path) of the serial and parallel drivers over a contract model of the process pool",
        text="Bounded symbolic check: towers and steps 1..3 (4 thorough), all strategies incl. an invalid one, workers 1..5 or from the configuration, environment "
        "schedules (rotation/reversal of execution and completion order), parent thread setting 1..4, cache and footprint flags: the result is "
        "{tower: [single(tower, i)]} keyed in configuration order (the token carries the tower coordinates the single run sees), equals the serial driver, leaves the parent's thread/FFT state and the caller's towers untouched; one cache per series exactly when caching applies. "
        "Cache on = cache off is reduced to key injectivity over the requests of a series (z3 over identity-tagged runs of the real solver and _compute_key, as in C15).",
        ref="7/C14", note=CH_NOTE + " Real process pools, pickling and shared cache directories under concurrency are outside the claim."),
    "C15": dict(
        technique="identity-tagged execution of the real solver + real _compute_key over a token-recording hashlib stub, z3 queries over request pairs; CrossHair over put/get on a file-system model",
        text="(a) for every ordered pair of request skeletons (shape x levels x modes x precision x analytic x default/explicit halo) z3 decides that no assignment of "
        "the 26 value slots makes a stored entry answer a different request, and that an identical repeat always hits (what is hashed at lookup and at store is "
        "recorded from one real run per skeleton; every parameter of the real signature must be classified). (b) for every crash step of put(), failure kind of "
        "np.load and prior state of the entry, get() after restart returns None or a complete value and never raises.",
        ref="7/C15", note="Trusted: z3, CrossHair; SHA-256 collision-free; token-sequence equality <=> key equality (fixed array lengths); np.load / os.replace contracts as listed. "
        "Sat answers are replayed with a real on-disk cache (stale result / no hit) and real truncated files."),
    "C16": dict(engine="crosshair",
        technique="CrossHair symbolic execution (z3 per path) of MetConfig / BLDFMConfig / timeseries driver / CLI loop",
        text="Bounded symbolic check: all 16 list/scalar patterns with symbolic lists (length 1..3 quick / 1..4 thorough, symbolic entries), ustar/z0 presence, "
        "timestamps absent or of symbolic length: building the configuration rejects exactly the mismatching or unforced series, otherwise the step count is the "
        "common length (or one); step i takes the i-th entries / scalars / i-th timestamp or i; the drivers call the single run for 0..n-1 in order.",
        ref="7/C16", note=CH_NOTE),
    "C08": dict(
        technique="exact/UF symbolic execution of compute_wind_fields (z3 NRA with instantiated trig laws) + CrossHair on the interface plumbing + path-explored configuration building",
        text="(a) for every speed >= 0 and every real direction z3 decides speed preservation, the four cardinal mappings (0/90/180/270 -> toward S/W/N/E), the "
        "sign pattern inside every quadrant and 360-periodicity of the real wind decomposition; (b) CrossHair confirms over all paths that the interface hands "
        "(speed, direction) to the decomposition, (u, v) in order to the profiles and the tower's local x, y as measurement point; the tower's lat/lon reach x, y "
        "for every reference origin. The centroid-bearing clause ('within a few degrees') is OUTSIDE the claim (numerical solution; z3 unknown on the exact sign certificate).",
        ref="7/C08", note="Trusted: z3, CrossHair; sin/cos as uninterpreted functions with the listed laws; stubs as in C13."),
    "C09": dict(
        technique="exact/UF symbolic execution of vertical_profiles/psi/phi and the reference copies with a solver-guided path explorer; dual numbers for psi'",
        text="For all real forcings (0<z0<zm, |wind|>0, ustar>0, mol of either sign, prsc, tke) and every closure, on each explored grid length z3 decides: z[0]=z0, z[n]=zm, "
        "strict monotonicity, reaching the domain height, wind vector at zm, constant direction, Kz>0 and the similarity formula (independent phi_h), the MOSTM split, the "
        "ustar->z0->ustar round trip; psi(0)=0, phi(0)=1; x psi'(x) = phi_m(x)-1 by running the real psi on dual numbers; agreement with the reference model's copies.",
        ref="7/C09", note="Trusted: z3; exp/log/sqrt/pow/atan uninterpreted with instantiated laws (a proof holds for the true functions; sat answers are replayed); queries go through a portfolio "
        "(all law instances / lazy instantiation / disjuncts one by one); 2 layers and grids up to 4 nodes for every closure (quick leaves the two ustar-forced MOSTM cases to the thorough tier, which also adds the CONSTANT closure and the grid jobs with 3-4 layers, up to 7 nodes), longer grids cut and counted; "
        "stretch and domain_height symbolic for the grid clauses; one (case, path, obligation) triple undecided within the budget is outside the claim and listed in the evidence (0.2 of DESIGN.md)."),
    "C17": dict(
        technique="exact/UF symbolic execution of latlon_to_xy / xy_to_latlon / configuration building (z3 NRA) with a path explorer",
        text="For all real coordinates (|ref_lat|<90) z3 decides both round-trip identities, origin -> (0,0), x east / y north monotone and separable, element-wise array behaviour, "
        "and that building a configuration fills tower x, y with latlon_to_xy for every reference origin incl. 0. The 0.1 % / 0.1 degree great-circle clause is OUTSIDE the claim.",
        ref="7/C17", note="Trusted: z3; cos(radians(ref_lat)) one uninterpreted positive value; exact rationals for literals (rounding of doubles outside)."),
    "C18": dict(
        technique="symbolic execution of io.save/load over an xarray contract stub with every stored number a z3 variable",
        text="Per result-set shape (towers 1..3(4) x steps x 2-D/3-D x ustar/z0 forcing x string/int timestamps) z3 decides that every loaded entry is the variable stored for that "
        "tower, step, level and cell, tower metadata belong to the tower of that name, met values to that step; labels, coordinates, float64 storage and the lossless-encoding "
        "predicate are checked; the stub's contract is validated on every run against the real xarray/netCDF4 with extreme values.",
        ref="7/C18", note="Trusted: z3; the xarray/netCDF4 contract (validated each run); HDF5+zlib themselves outside."),
    "C19": dict(
        technique="exact/UF symbolic execution of the Kormann-Meixner model on a one-cell grid with symbolic cell position (z3 NRA + instantiated laws, path explorer); loop body of estimateZ0 executed once with a symbolic bin index (QF_LIRA)",
        text="For all (zm>z0>0, ws, ustar, sigma_v, res>0, L of either sign) and EVERY cell position relative to the receptor z3 decides per path: the cell value equals the paper's closed "
        "form (written independently) upwind, 0 downwind and for U<0, is non-negative, symmetric about the wind axis, rotated correctly for wd in {0,90,180,270} (unstable: {90,270}), and that an "
        "integer-typed height never passes through integer storage (numpy dtype rule modelled); estimateZ0 inverts the diabatic log law; the selection entering each directional median is "
        "invariant under every whole-degree rotation for all directions in [0,360) and half windows 3, 22 (1..45 thorough).",
        ref="7/C19", note="Trusted: z3; pow/exp/log/gamma/sqrt/atan/atan2/sin/cos and the median as uninterpreted functions with the listed laws; the Riemann-sum limit and non-cardinal rotations are outside."),
    "C20": dict(
        technique="symbolic execution of get_source_area / extract_percentile_contour on z3 terms with argsort as an arbitrary sorting permutation and searchsorted as a constrained index (QF_LIRA)",
        text="For all f >= 0 and g of up to 6 (7) cells, every tie-breaking of the sort: the rescaled value lies between the strict and the tied sums, is non-increasing in g, equals the strict sum "
        "for distinct g, is invariant under increasing maps of g and common permutations, also for transposed (non C-contiguous) inputs and the five built-in base functions with real ties; "
        "the percentile contour is the fewest highest cells reaching p*total with level their minimum, monotone in p, scale-covariant, 3-D sliced, 1-D/2-D coordinates (p in {0.1,0.5,0.8,1}).",
        ref="7/C20", note="Trusted: z3; argsort/searchsorted/cumsum contracts; reals for doubles; cell counts bounded as stated."),
}

PENDING = "check not built yet in this round (work in progress; see DESIGN.md section 7 for the plan)"


def main():
    props = [json.loads(l) for l in open(os.path.join(HERE, "properties.jsonl"))]
    checks, na = [], []
    for p in props:
        pid = p["id"]
        if pid in CLAIMS and os.path.exists(os.path.join(HERE, "vf", "props", pid + ".py")):
            c = CLAIMS[pid]
            checks.append(
                {
                    "property_id": pid,
                    "quick_cmd": "./check %s --tier quick" % pid,
                    "thorough_cmd": "./check %s --tier thorough" % pid,
                    "evidence_file": "/verif/evidence/%s.json" % pid,
                    "replay_cmd_template": "./check %s --replay {path}" % pid,
                    "engine": c.get("engine", "symnp"),
                    "level_claimed": {"category": "other", "text": c["text"], "design_ref": "DESIGN.md section " + c["ref"]},
                    "level_note": c["note"],
                    "technique": c["technique"],
                }
            )
        else:
            na.append({"property_id": pid, "reason": NA.get(pid, PENDING)})
    man = {
        "version": 1,
        "setup_cmd": "./setup.sh",
        "hooks": {
            "guard": "BLDFM_VERIF",
            "enable": "no hooks are needed: the checks load the repository's source text from the working tree "
            "into private modules (vf/symnp/loader.py) and monkey-patch only inside their own process",
            "baseline_off_cmd": "cd /repo && /venv/bin/python -m pytest -ra -q -p no:cacheprovider --timeout=900 --continue-on-collection-errors",
            "source_commits": [],
            "add_only": True,
        },
        "engines": [
            {"name": "symnp", "path": "vf/symnp", "serves_properties": sorted(CLAIMS),
             "kind_free_text": "symbolic execution of the repository's numpy code on solver-backed scalar domains (affine forms, z3 terms, uninterpreted functions with instantiated axioms, symbolic shapes); z3 decides"},
            {"name": "crosshair", "path": "vf/props/ch", "serves_properties": [],
             "kind_free_text": "CrossHair (z3 per path) on the pure-Python control plane with recording stubs"},
        ],
        "checks": checks,
        "not_applicable": na,
        "notes": "Exit codes: 0 held (KNOWN-FINDING lines allowed), 1 VIOLATION (replayed on the real package), 2 harness error / inconclusive. "
        "Genuine defects found while building were repaired in /repo as 'fix:' commits and are listed in known_findings.json as fixed.",
    }
    with open(os.path.join(HERE, "MANIFEST.json"), "w") as f:
        json.dump(man, f, indent=1)
    print("claimed:", [c["property_id"] for c in checks], "not_applicable:", len(na))


NA = {}

if __name__ == "__main__":
    main()
