"""CrossHair conditions for C15(b): crash safety of the real
GreensFunctionCache.put / get over a file-system model.

File states: absent / partial / complete(value).  np.savez(path) makes the
file partial, then complete; a crash (SystemExit-like) may occur before any
file-system step; os.replace is atomic; a partial (truncated or damaged) file
fails with one of BadZipFile, EOFError, ValueError, OSError (symbolic choice)
EITHER when np.load opens it (truncation: the zip directory at the end is
missing) OR only when a member is read (np.load of an .npz is lazy: a damaged
body with an intact directory opens fine and fails on the CRC / header of the
member); a complete file returns the stored arrays."""
import logging
import zipfile
from typing import Optional

logging.disable(logging.CRITICAL)

import bldfm.cache as C


class Crash(BaseException):
    pass


class FS:
    def __init__(self):
        self.files = {}  # name -> ("partial", None) | ("complete", value)
        self.steps = 0
        self.crash_at = -1
        self.fail_kind = 0

    def step(self):
        if self.steps == self.crash_at:
            raise Crash()
        self.steps += 1


_FS = FS()


class FakePath:
    def __init__(self, p):
        self.p = str(p.p) if isinstance(p, FakePath) else str(p)

    def __truediv__(self, o):
        return FakePath(self.p + "/" + str(o))

    def mkdir(self, *a, **k):
        pass

    def exists(self):
        return self.p in _FS.files

    def unlink(self, *a, **k):
        _FS.step()
        _FS.files.pop(self.p, None)

    def glob(self, pat):
        return [FakePath(n) for n in list(_FS.files) if n.startswith(self.p + "/")]

    def __str__(self):
        return self.p

    def __fspath__(self):
        return self.p


class _Npz(dict):
    def __enter__(self):
        return self

    def __exit__(self, *a):
        return False

    def close(self):
        pass


def _fail(k):
    if k == 0:
        raise zipfile.BadZipFile("unreadable")
    if k == 1:
        raise EOFError("unreadable")
    if k == 2:
        raise ValueError("unreadable")
    raise OSError("unreadable")


class _DamagedNpz:
    """opens, lists its members, fails when one is read"""

    def __init__(self, kind):
        self.kind = kind
        self.files = ["X", "Y", "Z", "conc", "flx"]

    def __enter__(self):
        return self

    def __exit__(self, *a):
        return False

    def close(self):
        pass

    def keys(self):
        return list(self.files)

    def __contains__(self, k):
        return k in self.files

    def __getitem__(self, k):
        _fail(self.kind)

    def get(self, k, default=None):
        _fail(self.kind)


def _name(path):
    n = str(path)
    return n if n.endswith(".npz") else n + ".npz"


class FakeNP:
    def savez(self, path, **arrays):
        n = _name(path)
        _FS.step()
        _FS.files[n] = ("partial", None)  # the file exists but is not complete yet
        _FS.step()
        _FS.files[n] = ("complete", dict(arrays))

    def load(self, path, *a, **k):
        n = _name(path)
        if n not in _FS.files:
            raise FileNotFoundError(n)
        state, val = _FS.files[n]
        if state == "partial":
            k = _FS.fail_kind
            if k >= 4:
                return _DamagedNpz(k - 4)
            _fail(k)
        return _Npz(val)

    def __getattr__(self, n):
        import numpy

        return getattr(numpy, n)


class FakeOS:
    def replace(self, a, b):
        _FS.step()
        na, nb = str(a), str(b)
        _FS.files[nb] = _FS.files.pop(na)

    def getpid(self):
        return 4242

    def __getattr__(self, n):
        import os

        return getattr(os, n)


C.Path = FakePath
C.np = FakeNP()
C.os = FakeOS()

ARGS = ((0.1, 1.0), ((1.0, 1.0),) * 5, (10.0, 8.0), (4, 4), (1.0, 2.0), 3.0, "double")


def _fresh(old_present: bool, old_partial: bool):
    global _FS
    _FS.files.clear()
    _FS.steps = 0
    _FS.crash_at = -1
    cache = C.GreensFunctionCache("/c")
    if old_present:
        cache.put(*ARGS, ("X0", "Y0", "Z0"), "conc0", "flx0")
        if old_partial:  # an entry left truncated by an earlier interrupted run (any origin)
            for n in list(_FS.files):
                _FS.files[n] = ("partial", None)
    return cache


def _crash(crash_at, fail_kind, old_present, old_partial, leftover_partial_tmp):
    cache = _fresh(old_present, old_partial)
    if leftover_partial_tmp:
        _FS.files["/c/stale.4242.tmp.npz"] = ("partial", None)
    _FS.steps = 0
    _FS.crash_at = crash_at
    _FS.fail_kind = fail_kind
    crashed = False
    try:
        cache.put(*ARGS, ("X1", "Y1", "Z1"), "conc1", "flx1")
    except Crash:
        crashed = True
    # restart: a new process, a new cache object on the same directory
    _FS.crash_at = -1
    cache2 = C.GreensFunctionCache("/c")
    r = cache2.get(*ARGS)  # must not raise
    new = (("X1", "Y1", "Z1"), "conc1", "flx1")
    old = (("X0", "Y0", "Z0"), "conc0", "flx0")
    if r is None:
        return crashed  # a completed put must be found again
    got = (tuple(r[0]), r[1], r[2])
    if not crashed:
        return got == new
    return got == new or (old_present and not old_partial and got == old)


def check_crash_no_old_entry(crash_at: int, fail_kind: int, leftover_partial_tmp: bool) -> bool:
    """
    pre: 0 <= crash_at <= 8 and 0 <= fail_kind <= 7
    post: _
    """
    return _crash(crash_at, fail_kind, False, False, leftover_partial_tmp)


def check_crash_old_complete(crash_at: int, fail_kind: int, leftover_partial_tmp: bool) -> bool:
    """
    pre: 0 <= crash_at <= 8 and 0 <= fail_kind <= 7
    post: _
    """
    return _crash(crash_at, fail_kind, True, False, leftover_partial_tmp)


def check_crash_old_truncated(crash_at: int, fail_kind: int, leftover_partial_tmp: bool) -> bool:
    """
    pre: 0 <= crash_at <= 8 and 0 <= fail_kind <= 7
    post: _
    """
    return _crash(crash_at, fail_kind, True, True, leftover_partial_tmp)


def twin_crash(crash_at: int, fail_kind: int, leftover_partial_tmp: bool) -> bool:
    """
    pre: 0 <= crash_at <= 8 and 0 <= fail_kind <= 7
    post: _
    """
    _crash(crash_at, fail_kind, True, True, leftover_partial_tmp)
    return False


def check_roundtrip(other_key: bool) -> bool:
    """
    post: _
    """
    cache = _fresh(False, False)
    if cache.get(*ARGS) is not None:
        return False
    cache.put(*ARGS, ("X1", "Y1", "Z1"), "conc1", "flx1")
    args2 = ARGS[:5] + (4.0,) + ARGS[6:]
    r = cache.get(*(args2 if other_key else ARGS))
    if other_key:
        return r is None
    return r is not None and (tuple(r[0]), r[1], r[2]) == (("X1", "Y1", "Z1"), "conc1", "flx1")
