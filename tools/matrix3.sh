#!/bin/bash
# second half of round 2 + retests; FOREGROUND ONLY (patches /repo).
OUT=/verif/seeded/MATRIX_round2.txt
grep -v -E "^(C10_b C10|C14_b C15|DONE)" $OUT > $OUT.tmp; mv $OUT.tmp $OUT
cd /repo && git diff --quiet || { echo "/repo not clean"; exit 2; }
run() { n=$1; p=$2
  git -C /repo apply /verif/seeded/$n/patch.diff || { echo "$n $p APPLY-FAILED" >> $OUT; return; }
  ( cd /verif && timeout 3000 ./check $p --tier quick > /tmp/matrix_${n}_$p.log 2>&1 ); rc=$?
  git -C /repo checkout -- .
  echo "$n $p exit=$rc violations=$(grep -c '^VIOLATION' /tmp/matrix_${n}_$p.log) $(grep -E '^\[' /tmp/matrix_${n}_$p.log | tail -1)" >> $OUT
}
run C10_b C10; run C14_b C15; run C01_b C01; run C04_b C04; run C05_b C05; run C07_b C07; run C08_b C08; run C11_b C11; run C12_b C12; run C16_b C16; run C17_b C17; run C20_b C20; run R_C20_int_base_field C20
echo DONE >> $OUT
