"""C08 - meteorological wind-direction convention end to end.

The bearing of the footprint centroid for an arbitrary direction is a property
of the numerical solution with nothing symbolic but an angle inside sin/cos and
a non-linear solve: outside reach of an SMT solver (a whole-solver sign
certificate in exact arithmetic on a 4-cell line was tried while building: z3
answers unknown after 120 s even for one layer, so that clause is NOT claimed).
Decided instead:

(a) Kind U, exact arithmetic: utils.compute_wind_fields with symbolic speed
    U >= 0 and direction theta (sin / cos uninterpreted with the listed laws):
    u^2 + v^2 = U^2 for every theta; at 0 / 90 / 180 / 270 degrees
    (u, v) = (0,-U), (-U,0), (0,U), (U,0) (wind toward south / west / north /
    east); for theta strictly inside each quadrant the signs of (u, v) are
    those of a wind FROM theta measured clockwise from north; theta and
    theta + 360 give the same components.
(b) Engine B (CrossHair): run_bldfm_single hands (speed, direction) of that
    step to the decomposition, its (u, v) in that order to the profile
    function, and (tower.x, tower.y) as measurement point (conditions of C13's
    harness re-run here); lat/lon -> local x, y orientation is C17.
The sign / axis conventions inside the solver are covered by the identities of
C02 (reciprocity), C06 (translation) and C07 (mirror / transpose)."""
import os

import z3

from .. import chrun
from ..symnp import exact as ex
from ..symnp.loader import Loader

PID = "C08"
HERE = os.path.dirname(os.path.abspath(__file__))


def load(patch=None):
    env = ex.exact_env()
    env["patch"] = patch or {}
    L = Loader(env)
    return L, L.load("utils")


def part_a(run, patch=None, account=True):
    L, U_ = load(patch)
    if account:
        L.run = run
        L.record("utils", "compute_wind_fields")
        run.transforms = L.transforms()
    f = U_.compute_wind_fields
    found = []

    def ask(name, c, bad, scn):
        s = ex.solver_for(c)
        s.add(z3.Or(bad))
        if account:
            r = run.solve(s, name, scn)
            run.twin(ex.solver_for(c), name)
        else:
            s.set("timeout", 60000)
            r = str(s.check())
        if r == "sat":
            found.append((name, scn))

    # speed preserved
    c = ex.new_ctx()
    U, th = c.real("U"), c.real("theta")
    c.assume += [U.v >= 0]
    u, v = f(U, th)
    ask("speed_preserved", c, [ex.zt(u * u + v * v) != ex.zt(U * U)], dict(theta="any"))
    # cardinal directions
    for deg, (su, sv) in ((0, (0, -1)), (90, (-1, 0)), (180, (0, 1)), (270, (1, 0)), (360, (0, -1)), (-90, (1, 0))):
        c = ex.new_ctx()
        U = c.real("U")
        c.assume += [U.v >= 0]
        u, v = f(U, deg)
        ask("cardinal_directions", c, [ex.zt(u) != ex.zt(U * su), ex.zt(v) != ex.zt(U * sv)], dict(theta=deg))
        u2, v2 = f(U, float(deg))
        ask("cardinal_directions", c, [ex.zt(u2) != ex.zt(U * su), ex.zt(v2) != ex.zt(U * sv)], dict(theta=float(deg)))
    # quadrant signs: wind FROM theta (clockwise from north) blows toward theta + 180
    for lo, hi, (su, sv) in ((0, 90, (-1, -1)), (90, 180, (-1, 1)), (180, 270, (1, 1)), (270, 360, (1, -1))):
        c = ex.new_ctx()
        U, th = c.real("U"), c.real("theta")
        c.assume += [U.v > 0, th.v > lo, th.v < hi]
        u, v = f(U, th)
        bad = [ex.zt(u) * su <= 0, ex.zt(v) * sv <= 0]
        ask("quadrant_signs", c, bad, dict(theta="(%d, %d)" % (lo, hi)))
    # periodicity
    c = ex.new_ctx()
    U, th = c.real("U"), c.real("theta")
    u, v = f(U, th)
    u2, v2 = f(U, th + 360)
    ask("periodic_in_360", c, [ex.zt(u) != ex.zt(u2), ex.zt(v) != ex.zt(v2)], dict(theta="any"))
    return found


def replay(rec):
    if "call" in rec:
        return chrun.replay_record(rec, os.path.join(HERE, "ch"))
    import numpy as np
    from bldfm.utils import compute_wind_fields

    bad = []
    for U in (0.0, 1.0, 3, 7.5):
        for th, (su, sv) in ((0, (0, -1)), (90, (-1, 0)), (180, (0, 1)), (270, (1, 0)), (0.0, (0, -1)), (90.0, (-1, 0))):
            u, v = compute_wind_fields(U, th)
            if abs(u - su * U) > 1e-9 * max(U, 1) or abs(v - sv * U) > 1e-9 * max(U, 1):
                bad.append([U, th, float(u), float(v)])
        for th in np.linspace(1, 359, 60):
            u, v = compute_wind_fields(U, th)
            if abs(np.hypot(u, v) - U) > 1e-9 * max(U, 1):
                bad.append([U, float(th), "speed"])
            if U > 0:
                # blows toward th + 180: u = -U sin th, v = -U cos th
                if np.sign(u) != -np.sign(np.sin(np.deg2rad(th))) and abs(np.sin(np.deg2rad(th))) > 1e-6:
                    bad.append([U, float(th), "sign u"])
                if np.sign(v) != -np.sign(np.cos(np.deg2rad(th))) and abs(np.cos(np.deg2rad(th))) > 1e-6:
                    bad.append([U, float(th), "sign v"])
    return dict(discrepancies=bad[:8], confirmed=bool(bad))


CANARIES = [
    ("sin_cos_swapped", {"utils": [("u = -u_rot * np.sin(wind_dir)\n    v = -u_rot * np.cos(wind_dir)", "u = -u_rot * np.cos(wind_dir)\n    v = -u_rot * np.sin(wind_dir)")]}),
    ("toward_instead_of_from", {"utils": [("u = -u_rot * np.sin(wind_dir)", "u = u_rot * np.sin(wind_dir)")]}),
    ("mathematical_convention", {"utils": [("v = -u_rot * np.cos(wind_dir)", "v = u_rot * np.cos(wind_dir)")]}),
    ("degrees_not_converted", {"utils": [("    wind_dir = np.deg2rad(wind_dir)\n", "")]}),
]


def main(run):
    run.explanation = (
        "(a) exact symbolic execution of compute_wind_fields with symbolic speed and direction, sin/cos uninterpreted with instantiated laws: "
        "z3 decides speed preservation for every direction, the four cardinal mappings (int and float degrees), the sign pattern inside "
        "every quadrant, and 360-degree periodicity. (b) CrossHair on run_bldfm_single: (speed, direction) -> decomposition -> (u, v) in order "
        "to the profiles; tower local x, y as measurement point. The centroid-bearing clause is OUTSIDE the claim."
    )
    run.assumptions = [
        "sin, cos uninterpreted with: sin^2+cos^2=1, values at multiples of pi/2, signs on the open quadrants, shifts by pi and 2 pi; 3.14159265 < pi < 3.14159266",
        "OUTSIDE: bearing of the footprint centroid within a few degrees for arbitrary directions, stabilities and closures (numerical solution; z3 unknown on the exact 4-cell certificate)",
        "lat/lon placement is C17; plumbing conditions are those of C13's harness",
    ]
    found = part_a(run)
    for name, scn in found:
        res = replay({})
        run.report(dict(property=PID, obligation=name, scenario=scn, replay=res), res["confirmed"])
    quick = run.tier == "quick"
    res = chrun.run_conditions(run, os.path.join(HERE, "ch", "c13.py"), dict(LMAX=3, NZMAX=4), ["check_scalar_forcing", "check_single"], ["twin_single"],
                               150 if quick else 600, PID,
                               {"check_scalar_forcing": "scalar forcing: (speed, dir) to the decomposition, its (u,v) in order to the profiles, (tower.x, tower.y) as measurement point",
                                "check_single": "same for list forcing and every option"})
    for fn, rec, ok in res:
        run.report(rec, ok)
    # (b2) the tower's lat/lon reach the solver as local x, y for EVERY reference origin (shared with C17)
    from . import C17

    L17, cp, geo = C17.load()
    # ... and those local coordinates are oriented x east / y north with the origin at (0, 0) for every origin and tower
    # (otherwise "upwind of the tower" is meaningless for towers placed by latitude / longitude)
    wanted = ("configuration_fills_tower_xy_for_every_origin", "origin_maps_to_zero", "x_east_y_north_and_separable")
    reported = False
    for name, fn in [o for o in C17.obligations(cp, geo) if o[0] in wanted]:
        for bad, c in ex.explore(fn, cap=16):
            s = ex.solver_for(c)
            s.add(z3.Or(bad))
            r = run.solve(s, name, dict(obligation=name))
            run.twin(ex.solver_for(c), name)
            run.paths["explored"] += 1
            if r == "sat" and not reported:
                reported = True
                vals = {}
                m_ = s.model()
                for d in m_.decls():
                    if d.name() in ("lat", "lon", "ref_lat", "ref_lon", "lat2", "lon2"):
                        try:
                            v = m_[d]
                            vals[d.name()] = float(v.numerator_as_long()) / float(v.denominator_as_long())
                        except Exception:
                            pass
                res17 = C17.replay(dict(model=vals))
                run.report(dict(property=PID, obligation=name, model=vals, replay=res17), res17["confirmed"])
    run.bounds = dict(part_a="all speeds >= 0 and all real directions", part_b="as C13; tower coordinates: all reference origins")
    for name, patch in CANARIES:
        try:
            f = part_a(run, patch=patch, account=False)
        except KeyError:
            run.note("canary %s not applicable" % name)
            continue
        except Exception:
            f = ["raised"]
        run.canaries["total"] += 1
        if f:
            run.canaries["caught"] += 1
        else:
            run.canaries["missed"].append(name)
            run.errors.append("canary %s was not noticed by the harness" % name)
