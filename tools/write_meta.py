#!/usr/bin/env python3
"""Write seeded/<id>/meta.json from the table below and the detection matrix."""
import json
import os
import re

HERE = os.path.dirname(os.path.dirname(os.path.abspath(__file__)))
S = os.path.join(HERE, "seeded")

INFO = {
    "C01_a": ("C01", "top-boundary eigenvalue takes Kx instead of Ky (copy-paste slip)", "anisotropic horizontal diffusivity at the top node (MOSTM or hand-built Kx != Ky) and a component with Ly != 0"),
    "C02_a": ("C02", "'effective halo' refactor: halo = px*dx and the footprint shift uses xm+halo, ym+halo", "dx != dy together with a halo that is not the same whole-cell width on both axes (also the default halo on non-square cells)"),
    "C03_a": ("C03", "truncation offset rounds up instead of down ((nxe - nlx + 1) // 2)", "odd padded size with an even mode count below it (odd nx or ny with truncation)"),
    "C04_a": ("C04", "analytic mean mode updated in place (tfftp[:,0,0] -= ...), background only in level slot 0", "analytic=True, more than one output level, non-zero background"),
    "C05_a": ("C05", "same in-place analytic mean-mode update (found independently for C05)", "analytic=True, several levels, non-zero background"),
    "C06_a": ("C06", "re-centring condition written with truthiness (`elif xm and ym`)", "dispersion mode with a measurement point that has exactly one zero coordinate"),
    "C07_a": ("C07", "re-centring shift uses xmx/2 for the y direction", "dispersion mode, non-zero measurement point, non-square domain"),
    "C08_a": ("C08", "reference-origin guard written with truthiness (`if ref_lat and ref_lon`)", "reference latitude or longitude exactly 0 (equator / Greenwich) with a tower away from the origin"),
    "C09_a": ("C09", "stable flux-gradient function capped at z/L = 1 (phi only, psi unchanged)", "strongly stable stratification with a grid level above the Monin-Obukhov length"),
    "C10_a": ("C10", "levels sorted for the sweep and rows put back with the sorting permutation instead of its inverse", ">= 3 levels whose sorting permutation has a 3-cycle, numerical mode"),
    "C11_a": ("C11", "truncation remainder moved to the low side of the centred spectrum", "odd padded size with an even mode count below it"),
    "C12_a": ("C12", "spectral work arrays cached by size in a module-level dict (dtype of the first solve sticks)", "a single-precision solve followed by a double-precision solve of the same spectral size in one process"),
    "C13_a": ("C13", "z0/ustar precedence flipped when merging the two vertical_profiles calls", "a met config that supplies both z0 and ustar"),
    "C14_a": ("C14", "'towers' strategy collects futures with as_completed (result keyed in completion order)", ">= 2 towers, >= 2 workers, a worker finishing out of submission order"),
    "C15_a": ("C15", "cache key hashes u, v, Kz only ('Kx, Ky alias K')", "two footprint requests differing only in Kx/Ky (MOST then MOSTM, or anisotropic profiles), explicit halo"),
    "C16_a": ("C16", "timestamps length checked only when some field is a list", "all four met fields scalar and a timestamps list of length != 1"),
    "C17_a": ("C17", "xy_to_latlon wraps longitudes into [-180, 180) but latlon_to_xy does not", "reference origin within a few km of the +-180 meridian"),
    "C18_a": ("C18", "tower coordinate and data written in sorted-name order, tower metadata in configuration order", ">= 2 towers whose names are not in alphabetical order"),
    "C19_a": ("C19", "direction-wrap thresholds of the z0 smoothing made window-sized (off by one on the upper side)", "smoothing active, an observation in bin 360-hw and another in [0,1)"),
    "C20_a": ("C20", "get_source_area flattens with ravel(order='K')", "f or g not C-contiguous (transposed view, Fortran order)"),
}
ORIGINS = {
    "R_C02_halo_shift": ("C02", "reverse of fix 33e89db (original defect)", "halo/dx or halo/dy not an integer, footprint mode"),
    "R_C05_propagator_sign": ("C05", "reverse of fix 3ee1654 (original defect)", "any run; visible as convergence order 2 instead of 3"),
    "R_C07_pad_floor": ("C07", "reverse of fix 9d31abb (original defect, found by the C07 check)", "halo a whole number of cells whose quotient is not exactly representable"),
    "R_C10_level_order": ("C10", "reverse of fix 00f9740 (original defect)", "levels not strictly ascending; analytic mode with several levels"),
    "R_C11_parity": ("C11", "reverse of fix 2619a29 (original defect)", "odd padded size with an even mode count"),
    "R_C11_squeeze": ("C11", "reverse of fix 4b95501 (original defect)", "one-cell-wide source"),
    "R_C15_cache_key": ("C15", "reverse of fix afea519 (original defect)", "requests differing only in levels / grid size / analytic / background; default halo"),
    "R_C15_crash_safety": ("C15", "reverse of fix 49c2729 (original defect)", "truncated cache file; interrupted write"),
    "R_C16_ntimesteps": ("C16", "reverse of fix 1c8bcdc (original defect)", "series only in mol / wind_dir; scalar forcing with timestamps"),
    "R_C20_int_base_field": ("C20", "reverse of fix 917a897 (original defect)", "integer-typed base field g"),
    "R_C19_int_dtype": ("C19", "reverse of fix 72725ef (original defect)", "integer-typed measurement height"),
}


def main():
    matrix = {}
    for fn in ("MATRIX_quick.txt", "MATRIX_round2.txt", "MATRIX_round3.txt", "MATRIX_round4.txt"):
        p = os.path.join(S, fn)
        if not os.path.exists(p):
            continue
        for line in open(p):
            m = re.match(r"(\S+) (C\d+) exit=(\d+) violations=(\d+) (.*)", line)
            if m:
                matrix.setdefault(m.group(1), []).append(dict(check=m.group(2), exit=int(m.group(3)), violation_lines=int(m.group(4)), summary=m.group(5).strip()))
    extra = {}
    p2 = os.path.join(S, "round2_info.json")
    if os.path.exists(p2):
        extra = json.load(open(p2))
    extra4 = {}
    p4 = os.path.join(S, "round4_info.json")
    if os.path.exists(p4):
        extra4 = json.load(open(p4))
    extra3 = {}
    p3 = os.path.join(S, "round3_info.json")
    if os.path.exists(p3):
        extra3 = json.load(open(p3))
    rows = []
    for name in sorted(os.listdir(S)):
        d = os.path.join(S, name)
        if not os.path.isdir(d) or not os.path.exists(os.path.join(d, "patch.diff")):
            continue
        if name in INFO:
            prop, what, needs = INFO[name]
            origin = "sub-agent (property text + private worktree only), round 1"
        elif name in extra:
            prop, what, needs = extra[name]
            origin = "sub-agent (property text + private worktree only), round 2"
        elif name in extra3:
            prop, what, needs = extra3[name]
            origin = "sub-agent (property text + private worktree only), round 3"
        elif name in extra4:
            prop, what, needs = extra4[name]
            origin = "sub-agent (property text + private worktree only), round 4"
        elif name in ORIGINS:
            prop, what, needs = ORIGINS[name]
            origin = "reverse of a fix: commit in /repo"
        else:
            continue
        res = matrix.get(name, [])
        meta = dict(
            id=name, breaks_property=prop, change=what, needs_to_manifest=needs, origin=origin,
            confirmed=dict(how="tools/confirm_seeded.sh %s: scratch worktree of /repo HEAD; demo.py exit 0 on the clean tree, exit 1 with the patch; full test-suite 135 passed with the patch" % name
                           if os.path.exists(os.path.join(d, "demo.py")) else "git diff <fix> <fix>^; demonstrated by the defect demos quoted in the fix commit message"),
            checks_run=[dict(cmd="tools/try_seeded.sh %s %s (git -C /repo apply; ./check %s --tier quick; git -C /repo checkout -- .)" % (name, r["check"], r["check"]), **r) for r in res],
            caught_by=[r["check"] for r in res if r["exit"] == 1 and r["violation_lines"] > 0],
        )
        with open(os.path.join(d, "meta.json"), "w") as f:
            json.dump(meta, f, indent=1)
        meta["inconclusive"] = [r["check"] for r in res if r["exit"] == 2]
        meta["not_flagged"] = [r["check"] for r in res if r["exit"] == 0]
        with open(os.path.join(d, "meta.json"), "w") as f:
            json.dump(meta, f, indent=1)
        rows.append((name, prop, what, ", ".join(meta["caught_by"]) or "-", ", ".join(meta["inconclusive"]) or "-", ", ".join(meta["not_flagged"]) or "-"))
    table = "| seeded change | property | what it does | caught by (exit 1, replayed) | inconclusive (exit 2) | passed (exit 0) |\n|---|---|---|---|---|---|\n"
    for r in rows:
        table += "| %s | %s | %s | %s | %s | %s |\n" % r
    with open(os.path.join(S, "MATRIX.md"), "w") as f:
        f.write(table)
    dp = os.path.join(HERE, "DESIGN.md")
    d = open(dp).read()
    b, e = "<!-- MATRIX:BEGIN -->", "<!-- MATRIX:END -->"
    if b in d and e in d:
        d = d[: d.index(b) + len(b)] + "\n" + table + d[d.index(e):]
        open(dp, "w").write(d)
    print(table)


if __name__ == "__main__":
    main()
