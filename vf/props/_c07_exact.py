"""C07(c): similarity with a SYMBOLIC factor s > 0 (exact arithmetic, no bound).
The real ivp_solver is run over one and two layers for the original and for the
rescaled inputs; z3 decides the relation between the two step matrices:
  lengths and diffusivities times s (z -> s z, K -> s K, wavenumbers -> /s):
      the step matrix is unchanged;
  winds and diffusivities times s: [[a, b], [c, d]] -> [[a, b/s], [s c, d]]
      (flux unchanged, concentration divided by s)."""
import z3

from ..symnp import exact as ex
from . import C05


def step(mod, c, prof, z, Lx, Ly, nl):
    cols = []
    for (p0, q0) in ((1, 0), (0, 1)):
        r = mod.ivp_solver((ex.xarr([ex.C(p0, 0)]), ex.xarr([ex.C(q0, 0)])), prof, z, [nl], Lx, Ly)
        cols.append((r[0][0], r[1][0]))
    return [[cols[0][0], cols[1][0]], [cols[0][1], cols[1][1]]]


def run_exact(run, patch=None, account=True):
    L, mod = C05.load_exact(patch)
    failed = []
    for nl in (1, 2):
        c = ex.new_ctx()
        s = c.real("s")
        c.assume.append(s.v > 0)
        nz = nl + 1
        prof = tuple(ex.xarr([c.real("%s%d" % (n, i)) for i in range(nz)]) for n in "u v Kx Ky Kz".split())
        for i in range(nz):
            c.assume.append(prof[4][i].v > 0)
        zz = [c.real("z0")]
        for i in range(nl):
            d = c.real("dz%d" % i)
            c.assume.append(d.v > 0)
            zz.append(zz[-1] + d)
        z = ex.xarr(zz)
        # the original wavenumbers are written as s * (scaled wavenumber): no division by s is needed
        lxs, lys = c.real("Lx_scaled"), c.real("Ly_scaled")
        lx, ly = lxs * s, lys * s
        Lx, Ly = ex.xarr([lx]), ex.xarr([ly])
        M0 = step(mod, c, prof, z, Lx, Ly, nl)
        u, v, Kx, Ky, Kz = prof
        # lengths and diffusivities times s
        zA = ex.xarr([e * s for e in zz])
        MA = step(mod, c, (u, v, Kx * s, Ky * s, Kz * s), zA, ex.xarr([lxs]), ex.xarr([lys]), nl)
        # winds and diffusivities times s
        MB = step(mod, c, (u * s, v * s, Kx * s, Ky * s, Kz * s), z, Lx, Ly, nl)
        # compared without dividing by s: b' * s == b, c' == c * s
        MB = [[MB[0][0], MB[0][1] * s], [MB[1][0], MB[1][1]]]
        wantB = [[M0[0][0], M0[0][1]], [M0[1][0] * s, M0[1][1]]]
        if account:
            run.twin(ex.solver_for(c), "C07(c) %d layer(s)" % nl)
        for name, got, want in (("similarity_lengths_symbolic_factor", MA, M0), ("similarity_speeds_symbolic_factor", MB, wantB)):
            bad = [ex.neq(got[i][j], want[i][j]) for i in range(2) for j in range(2)]
            sol = ex.solver_for(c)
            sol.add(z3.Or(bad))
            scn = dict(layers=nl, factor="symbolic s > 0")
            if account:
                r = run.solve(sol, name, scn, timeout_ms=120000)
            else:
                sol.set("timeout", 60000)
                r = str(sol.check())
            if r == "sat":
                failed.append((name, nl))
    if account and failed:
        run.errors.append("C07(c): exact similarity obligations refuted: %s (the concrete-factor part (b) reports through replay)" % failed)
    return failed
