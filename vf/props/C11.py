"""C11 - output keeps the input grid for any size parity, halo and mode count.

(a) Kind L, symbolic source, every (nx, ny) in a small range incl. odd and
    one-wide grids x even mode counts below / at / above the padded size x halo
    classes x both modes: the call either raises, or
      - the fields have exactly the shape of the source and the coordinates are
        x = i dx, y = j dy;
      - (i) registration: the footprint / dispersion reciprocity identity of
        C02 holds on that grid, and an all-modes dispersion run reproduces the
        source at the surface level;
      - (ii) low-pass: with fewer modes every Fourier component strictly inside
        the cut-off equals the full-mode component and every component strictly
        beyond it is zero (halo = 0 outputs; the row/column exactly at the
        cut-off is not asserted);
      - (iii) two different mode requests above the padded size give the same
        result, equal to requesting exactly the padded size when that is even.
(b) Kind D, symbolic sizes without upper bound: vf/props/C11b.py (shape domain
    with a solver-guided path explorer)."""
import numpy as np

from ..symnp import affine as af
from ..symnp import kindl

PID = "C11"


def mode_sets(nxe, nye):
    out = {"tiny": (2, 2)}
    bx, by = 2 * ((nxe - 1) // 2), 2 * ((nye - 1) // 2)
    if bx >= 2 and by >= 2:
        out["below"] = (bx, by)
    hx, hy = 2 * max(1, nxe // 4), 2 * max(1, nye // 4)
    out["half"] = (hx, hy)
    if nxe % 2 == 0 and nye % 2 == 0:
        out["at"] = (nxe, nye)
    out["above"] = (nxe + 2 + nxe % 2, nye + 4 + nye % 2)
    out["above2"] = (nxe + 6 + nxe % 2, nye + 2 + nye % 2)
    return out


def jobs(tier, seed):
    rng = range(1, 7) if tier == "quick" else range(1, 8)
    out = []
    k = seed
    for ny in rng:
        for nx in rng:
            dx = 10.0 + 2.0 * ((nx + ny) % 3)
            dy = 9.0 + 2.0 * (ny % 3) + (0.5 if nx % 2 else 0.0)
            if dx == dy:
                dy += 1.5
            for halo in (0.0, None, 1.3 * dx + 0.1):
                if halo is None and tier == "quick" and (nx + ny) % 2 == 1 and nx * ny > 12:
                    continue
                pid = ["P1", "P2", "P3"][k % 3]
                n = [2, 3][k % 2]
                k += 1
                out.append(dict(ny=ny, nx=nx, dx=dx, dy=dy, pid=pid, n=n, halo=halo, levels=[0, n],
                                precision="double", seed=seed, modes=(2, 2)))
    return out


def attempt(fn):
    try:
        return fn(), None
    except af.NonAffine:
        raise
    except Exception as e:
        return None, "%s: %s" % (type(e).__name__, e)


def body(run, sym, sc):
    sp = sym.sp
    ny, nx, dx, dy = sc["ny"], sc["nx"], sc["dx"], sc["dy"]
    z, prof = kindl.profiles(sc["pid"], sc["n"], seed=sc["seed"])
    nxe, nye, px, py = kindl.padded(sc)
    if kindl.growth(z, prof, dx, dy) > 14:
        run.note("scenario skipped for growth")
        return
    q = sym.field((ny, nx))
    bg = sym.var("bg")
    i0, j0 = 1 % nx, ny - 1
    ms = mode_sets(nxe, nye)
    res = {}
    nl = len(sc["levels"])

    def cexrec(name, scn, vals=None, **extra):
        d = dict(scenario=scn, obligation=name, **extra)
        if vals is not None:
            d.update(q=kindl.field_from_model(vals, (ny, nx)).tolist(), bg=vals.get("bg", 0.0))
        run.cex.append(d)

    def tally(name, sat):
        run.queries["sat" if sat else "unsat"] += 1
        o = run.ob(name)
        o["queries"] += 1
        o["sat" if sat else "unsat"] += 1

    for tag, modes in ms.items():
        scn = dict(sc, modes=modes, modeset=tag, padded=[nye, nxe])
        d, ed = attempt(lambda: kindl.sym_solve(sym, scn, q, srf_bg_conc=bg, zprof=(z, prof)))
        f, ef = attempt(lambda: kindl.sym_solve(sym, scn, q, footprint=True, meas_pt=(i0 * dx, j0 * dy), zprof=(z, prof)))
        res[tag] = (d, f)
        for mode, r, err in (("dispersion", d, ed), ("footprint", f, ef)):
            if r is None:
                run.ob("raises_instead (allowed)")["queries"] += 0
                run.extra.setdefault("raised", 0)
                run.extra["raised"] += 1
                continue
            g, c, fl = r
            bad = np.shape(c) != (nl, ny, nx) or np.shape(fl) != (nl, ny, nx)
            X, Y = np.asarray(g[0], float), np.asarray(g[1], float)
            okgrid = (not bad) and X.shape == (nl, ny, nx) and np.allclose(X, (np.arange(nx) * dx)[None, None, :] * np.ones((nl, ny, 1)), rtol=1e-12, atol=1e-12) \
                and np.allclose(Y, (np.arange(ny) * dy)[None, :, None] * np.ones((nl, 1, nx)), rtol=1e-12, atol=1e-12)
            tally("shape_and_coordinates", bad or not okgrid)
            run.nontrivial.add(("shape_and_coordinates", repr((ny, nx, sc["halo"], modes, mode))))
            if bad or not okgrid:
                cexrec("shape_and_coordinates", dict(scn, mode=mode), shape=list(np.shape(fl)))
        if d is not None and f is not None and np.shape(d[2]) == (nl, ny, nx) and np.shape(f[2]) == (nl, ny, nx):
            pm = sym.utils.point_measurement
            for name, a, b, off in (("registration_reciprocity_flux", f[2], d[2], 0), ("registration_reciprocity_conc", f[1], d[1], bg)):
                lhs = np.array([pm(q, a[k]) for k in range(nl)], dtype=object)
                rhs = np.array([b[k][j0, i0] - off for k in range(nl)], dtype=object)
                vals = kindl.forms_equal(run, sp, lhs, rhs, name, scn)
                if vals is not None:
                    cexrec(name, dict(scn, point=[i0, j0]), vals)
    # all modes retained: the surface flux is reproduced at the surface level
    for tag in ("above", "at"):
        if tag in res and res[tag][0] is not None and np.shape(res[tag][0][2]) == (nl, ny, nx):
            scn = dict(sc, modes=ms[tag], modeset=tag)
            vals = kindl.forms_equal(run, sp, res[tag][0][2][0], q, "all_modes_reproduce_source_at_surface", scn)
            if vals is not None:
                cexrec("all_modes_reproduce_source_at_surface", scn, vals)
    # (iii) clamp equivalence
    pairs = [("above", "above2")] + ([("above", "at")] if "at" in ms else [])
    for a, b in pairs:
        for mi, mode in enumerate(("dispersion", "footprint")):
            ra, rb = res[a][mi], res[b][mi]
            if ra is None or rb is None or np.shape(ra[2]) != np.shape(rb[2]):
                if (ra is None) != (rb is None):
                    tally("clamp_equivalence", True)
                    cexrec("clamp_equivalence", dict(sc, modes=ms[a], modes_b=ms[b], mode=mode), note="one raises, the other returns")
                continue
            scn = dict(sc, modes=ms[a], modes_b=ms[b], mode=mode)
            for nm, k in (("clamp_equivalence_conc", 1), ("clamp_equivalence_flux", 2)):
                vals = kindl.forms_equal(run, sp, ra[k], rb[k], nm, scn)
                if vals is not None:
                    cexrec(nm, scn, vals)
    # (ii) low-pass on the whole periodic domain
    if sc["halo"] == 0.0 and res["above"][0] is not None and np.shape(res["above"][0][2]) == (nl, ny, nx):
        for mi, mode in enumerate(("dispersion", "footprint")):
            full = res["above"][mi]
            if full is None:
                continue
            for tag in ("tiny", "half", "below"):
                if tag not in ms or res[tag][mi] is None or np.shape(res[tag][mi][2]) != (nl, ny, nx):
                    continue
                nlx, nly = ms[tag]
                if nlx > nx or nly > ny:
                    continue  # clamped to all modes: nothing to assert
                kx = np.abs(np.fft.fftfreq(nx, d=1.0 / nx).round().astype(int))
                ky = np.abs(np.fft.fftfreq(ny, d=1.0 / ny).round().astype(int))
                inside = (ky[:, None] < nly / 2) & (kx[None, :] < nlx / 2)
                beyond = (ky[:, None] > nly / 2) | (kx[None, :] > nlx / 2)
                scn = dict(sc, modes=ms[tag], modeset=tag, mode=mode)
                for nm, k in (("lowpass_conc", 1), ("lowpass_flux", 2)):
                    Ft = np.fft.fft2(af.coeffs(res[tag][mi][k], sp), axes=(-3, -2), norm="forward")
                    Ff = np.fft.fft2(af.coeffs(full[k], sp), axes=(-3, -2), norm="forward")
                    lhs = af.from_coeffs(np.concatenate([Ft[:, inside], Ft[:, beyond]], axis=1), sp)
                    rhs = af.from_coeffs(np.concatenate([Ff[:, inside], 0 * Ft[:, beyond]], axis=1), sp)
                    sc_ = max(af.scale_of(af.from_coeffs(Ff, sp), sp), 1e-300)
                    vals = kindl.forms_equal(run, sp, lhs, rhs, nm, scn, scale=sc_)
                    if vals is not None:
                        cexrec(nm, scn, vals)
    run.sample(dict(grid=[ny, nx], halo=sc["halo"], padded=[nye, nxe], mode_sets=ms), cap=4)


def worker(sc):
    return kindl.guarded_worker(PID, body, sc)


def replay(rec):
    sc = rec["scenario"]
    ob = rec["obligation"]
    ny, nx, dx, dy = sc["ny"], sc["nx"], sc["dx"], sc["dy"]
    tol = kindl.REPLAY_TOL[sc["precision"]]
    rng = np.random.default_rng(4)
    q = np.array(rec["q"], float) if "q" in rec else rng.standard_normal((ny, nx))
    bg = float(rec.get("bg", 0.3))
    z, prof = kindl.profiles(sc["pid"], sc["n"], seed=sc.get("seed", 0))
    nl = len(sc["levels"])
    i0, j0 = 1 % nx, ny - 1
    out = dict(obligation=ob)
    worst = 0.0

    def solve(modes, fp):
        kw = dict(footprint=True, meas_pt=(i0 * dx, j0 * dy)) if fp else dict(srf_bg_conc=bg)
        return kindl.real_solve(dict(sc, modes=modes), q, zprof=(z, prof), **kw)

    try:
        if ob == "shape_and_coordinates":
            g, c, f = solve(sc["modes"], sc["mode"] == "footprint")
            X, Y = np.asarray(g[0]), np.asarray(g[1])
            ok = np.shape(c) == (nl, ny, nx) and np.shape(f) == (nl, ny, nx) and X.shape == (nl, ny, nx) and \
                np.allclose(X[0, 0], np.arange(nx) * dx) and np.allclose(Y[0, :, 0], np.arange(ny) * dy)
            out.update(shape=list(np.shape(f)), confirmed=not ok)
            return out
        if ob.startswith("registration"):
            g, c, f = solve(sc["modes"], False)
            g, cf, ff = solve(sc["modes"], True)
            for k in range(nl):
                worst = max(worst, abs(float(np.sum(q * ff[k])) - float(f[k][j0, i0])) / max(np.abs(f[k]).max(), 1e-300),
                            abs(float(np.sum(q * cf[k])) - float(c[k][j0, i0] - bg)) / max(np.abs(c[k] - bg).max(), 1e-300))
        elif ob == "all_modes_reproduce_source_at_surface":
            g, c, f = solve(sc["modes"], False)
            worst = kindl.rel_err(f[0], q)
        elif ob.startswith("clamp"):
            fp = sc["mode"] == "footprint"
            ra, ea = attempt(lambda: solve(sc["modes"], fp))
            rb, eb = attempt(lambda: solve(sc["modes_b"], fp))
            if (ra is None) != (rb is None):
                out.update(a=ea, b=eb, confirmed=True)
                return out
            if ra is not None:
                worst = max(kindl.rel_err(ra[1] - (0 if fp else bg), rb[1] - (0 if fp else bg)), kindl.rel_err(ra[2], rb[2]))
        elif ob.startswith("lowpass"):
            fp = sc["mode"] == "footprint"
            nlx, nly = sc["modes"]
            rt = solve(sc["modes"], fp)
            rf = solve((nx + 2 + nx % 2, ny + 4 + ny % 2), fp)
            kx = np.abs(np.fft.fftfreq(nx, d=1.0 / nx).round().astype(int))
            ky = np.abs(np.fft.fftfreq(ny, d=1.0 / ny).round().astype(int))
            inside = (ky[:, None] < nly / 2) & (kx[None, :] < nlx / 2)
            beyond = (ky[:, None] > nly / 2) | (kx[None, :] > nlx / 2)
            for k in (1, 2):
                Ft = np.fft.fft2(rt[k], axes=(-2, -1), norm="forward")
                Ff = np.fft.fft2(rf[k], axes=(-2, -1), norm="forward")
                s = max(np.abs(Ff[:, 1:, :]).max(), np.abs(Ff[:, :, 1:]).max() if nx > 1 else 0, 1e-300)
                worst = max(worst, float(np.abs(Ft[:, inside] - Ff[:, inside]).max() / s) if inside.any() else 0.0,
                            float(np.abs(Ft[:, beyond]).max() / s) if beyond.any() else 0.0)
    except Exception as e:
        out.update(error="%s: %s" % (type(e).__name__, e), confirmed=False, note="the real call raised: allowed by the property")
        return out
    out.update(max_rel_discrepancy=worst, tolerance=tol, confirmed=bool(worst > tol))
    return out


CANARIES = [
    ("symmetric_truncation", {"solver": [("dhx, dhy = nxe - nlx - dlx, nye - nly - dly", "dhx, dhy = dlx, dly")]}),
    ("remainder_on_low_side", {"solver": [("dlx, dly = (nxe - nlx) // 2, (nye - nly) // 2\n    dhx, dhy = nxe - nlx - dlx, nye - nly - dly", "dhx, dhy = (nxe - nlx) // 2, (nye - nly) // 2\n    dlx, dly = nxe - nlx - dhx, nye - nly - dhy")]}),
    ("squeeze_all_axes", {"solver": [("        grid = (X[0], Y[0], Z[0])\n        result = (grid, conc[0], flx[0])", "        grid = (np.squeeze(X), np.squeeze(Y), np.squeeze(Z))\n        result = (grid, np.squeeze(conc), np.squeeze(flx))"), ("        grid = (X, Y, Z)\n        result = (grid, conc, flx)", "        grid = (np.squeeze(X), np.squeeze(Y), np.squeeze(Z))\n        result = (grid, np.squeeze(conc), np.squeeze(flx))")]}),
    ("clamp_to_even", {"solver": [("        nlx, nly = nxe, nye\n", "        nlx, nly = nxe - nxe % 2, nye - nye % 2\n")]}),
    ("crop_one_short", {"solver": [("flx = q[:, py : nye - py, px : nxe - px]", "flx = q[:, py : nye - py, px : nxe - px - (nxe % 2)]")]}),
]


def canary_probe(sym, sc):
    return kindl.probe_body(PID, body, sym, sc)


def main(run):
    from . import C11b

    run.explanation = (
        "(a) Symbolic execution of the solver on affine forms for every grid size 1..6 (quick) / 1..7 (thorough) "
        "squared incl. odd and one-wide grids, three halo classes, five/six even mode requests below/at/above "
        "the padded size, both modes: every call either raises or returns fields of the source's shape with "
        "coordinates i*dx, j*dy that are correctly registered (z3: reciprocity forms equal for all sources; "
        "all-mode run reproduces the source at the surface), low-pass filtered exactly (z3: spectral forms "
        "equal inside the cut-off, zero beyond), and clamped consistently.  (b) the real solver source over a "
        "shape domain with z3 integer sizes and a solver-guided path explorer: sizes unbounded."
    )
    run.assumptions = [
        "real arithmetic with the production doubles as coefficients; tolerance 1e-9 of the largest coefficient",
        "pyfftw = mathematical DFT; numba preserves Python semantics",
        "the row/column exactly at the cut-off and the mixed clamp case (one count above, one below the padded size) are not asserted",
        "an exception of any type is accepted as 'raises an error'",
    ]
    kindl.validate_encoding(run)
    js = jobs(run.tier, run.seed)
    run.bounds = dict(grids="every (ny, nx) in %s^2" % ("1..6" if run.tier == "quick" else "1..7"), halo_classes="0, None (default), incommensurate",
                      mode_requests="(2,2), half, largest even below, at (if even), two above the padded size", jobs=len(js),
                      outside="(a) grids > 7x7; (b) none on sizes (see C11b); rounding")
    cex = run.pmap(worker, js)
    kindl.handle_cex(run, PID, cex, replay)
    pick = [j for j in js if (j["ny"], j["nx"]) in ((4, 5), (1, 4), (3, 3)) and j["halo"] == 0.0]
    kindl.run_canaries(run, "vf.props.C11:canary_probe", CANARIES, pick)
    C11b.run_shapes(run)
    C11b.canaries(run)
