#!/usr/bin/env python3
"""Regenerate /verif/MANIFEST.json from the per-property table below.
A property is claimed iff vf/props/<id>.py exists and it has an entry in CLAIMS."""
import json
import os

HERE = os.path.dirname(os.path.dirname(os.path.abspath(__file__)))

KINDL_NOTE = (
    "Trusted: z3 5.1; the shim's stubs (pyfftw = mathematical DFT, numba preserves Python "
    "semantics, logging dropped); real arithmetic with the production doubles as coefficients "
    "(no IEEE rounding), tolerance 1e-9 of the largest coefficient; sizes/profiles/halo/modes are "
    "concrete per scenario (bounds listed in the evidence); sat answers are replayed on the real package."
)

CLAIMS = {
    "C02": dict(
        technique="symbolic execution of solver.py on affine forms + z3 (QF_LRA) form-equality queries",
        text="Bounded symbolic check: for each concrete (grid, profile, layers, halo, modes, levels, precision) "
        "scenario the real solver source is executed with every surface-flux entry and the background as "
        "solver variables; z3 decides for ALL fields whether sum(q0*footprint) and the forward run at the tower "
        "are the same linear form (flux and concentration, every level, every on-grid point of small grids). "
        "Covers all fields, not sampled ones; sizes and profile families are the stated bounds.",
        ref="7/C02",
        note=KINDL_NOTE,
    ),
}

PENDING = "check not built yet in this round (work in progress; see DESIGN.md section 7 for the plan)"


def main():
    props = [json.loads(l) for l in open(os.path.join(HERE, "properties.jsonl"))]
    checks, na = [], []
    for p in props:
        pid = p["id"]
        if pid in CLAIMS and os.path.exists(os.path.join(HERE, "vf", "props", pid + ".py")):
            c = CLAIMS[pid]
            checks.append(
                {
                    "property_id": pid,
                    "quick_cmd": "./check %s --tier quick" % pid,
                    "thorough_cmd": "./check %s --tier thorough" % pid,
                    "evidence_file": "/verif/evidence/%s.json" % pid,
                    "replay_cmd_template": "./check %s --replay {path}" % pid,
                    "engine": c.get("engine", "symnp"),
                    "level_claimed": {"category": "other", "text": c["text"], "design_ref": "DESIGN.md section " + c["ref"]},
                    "level_note": c["note"],
                    "technique": c["technique"],
                }
            )
        else:
            na.append({"property_id": pid, "reason": NA.get(pid, PENDING)})
    man = {
        "version": 1,
        "setup_cmd": "./setup.sh",
        "hooks": {
            "guard": "BLDFM_VERIF",
            "enable": "no hooks are needed: the checks load the repository's source text from the working tree "
            "into private modules (vf/symnp/loader.py) and monkey-patch only inside their own process",
            "baseline_off_cmd": "cd /repo && /venv/bin/python -m pytest -ra -q -p no:cacheprovider --timeout=900 --continue-on-collection-errors",
            "source_commits": [],
            "add_only": True,
        },
        "engines": [
            {"name": "symnp", "path": "vf/symnp", "serves_properties": sorted(CLAIMS),
             "kind_free_text": "symbolic execution of the repository's numpy code on solver-backed scalar domains (affine forms, z3 terms, uninterpreted functions with instantiated axioms, symbolic shapes); z3 decides"},
            {"name": "crosshair", "path": "vf/props/ch", "serves_properties": [],
             "kind_free_text": "CrossHair (z3 per path) on the pure-Python control plane with recording stubs"},
        ],
        "checks": checks,
        "not_applicable": na,
        "notes": "Exit codes: 0 held (KNOWN-FINDING lines allowed), 1 VIOLATION (replayed on the real package), 2 harness error / inconclusive. "
        "Genuine defects found while building were repaired in /repo as 'fix:' commits and are listed in known_findings.json as fixed.",
    }
    with open(os.path.join(HERE, "MANIFEST.json"), "w") as f:
        json.dump(man, f, indent=1)
    print("claimed:", [c["property_id"] for c in checks], "not_applicable:", len(na))


NA = {}

if __name__ == "__main__":
    main()
