#!/bin/bash
# confirm a seeded change: applies cleanly, full test-suite passes with it,
# demo fails with it and passes without it.  Usage: confirm_seeded.sh <dir under /verif/seeded>
# Works in a scratch worktree under /tmp; removes it afterwards.
set -u
ID="$1"; D=/verif/seeded/$ID; WT=/tmp/confirm_$ID
git -C /repo worktree remove --force $WT >/dev/null 2>&1
git -C /repo worktree add -q --detach $WT HEAD || exit 2
cd $WT
export PYTHONPATH=$WT/src
cp $D/demo.py $WT/demo.py
/venv/bin/python demo.py >/tmp/confirm_$ID.clean.log 2>&1; CLEAN=$?
git apply $D/patch.diff || { echo "$ID: patch does not apply"; git -C /repo worktree remove --force $WT; exit 2; }
/venv/bin/python demo.py >/tmp/confirm_$ID.mut.log 2>&1; MUT=$?
TESTS=$(/venv/bin/python -m pytest -q -p no:cacheprovider --timeout=900 2>&1 | grep -E "passed|failed|error" | tail -1)
cd /; git -C /repo worktree remove --force $WT
echo "$ID: demo_clean_exit=$CLEAN demo_mutant_exit=$MUT tests='$TESTS'"
