"""C06 - horizontal translation equivariance of sources, towers and centring.
Kind L, halo = 0 (periodic domain observed directly), plus the centring clause
with halos.

(a) S(roll(q, s)) == roll(S(q), s) for symbolic q and integer shifts incl. wrap;
(b) footprint with a CONTINUOUS symbolic tower (xm, ym) (per-mode phase
    variables): fp(xm + a dx, ym + b dy) == roll(fp(xm, ym), (b, a));
(c) fp_m[c] == G_m[(2m - c) mod n]: the footprint for an on-grid point is the
    point reflection about it of the response to a unit source (symbolic
    amplitude) placed there;
(d) dispersion mode with meas_pt = (i dx, j dy) != 0 on even grids: the output
    is the field rolled so that (j, i) sits at (ny/2, nx/2) (halo = 0), and the
    centre value equals the field value at that point for every halo class."""
import functools

import numpy as np

from ..symnp import affine as af
from ..symnp import kindl

PID = "C06"


def shifts(ny, nx):
    s = {(1, 0), (0, 1), (ny - 1, nx - 1), (1, nx - 1), (ny // 2, nx // 2 + 1)}
    return sorted((a % ny, b % nx) for a, b in s if (a % ny, b % nx) != (0, 0))


def body(run, sym, sc):
    sp = sym.sp
    ny, nx = sc["ny"], sc["nx"]
    dx, dy = sc["dx"], sc["dy"]
    sc0 = dict(sc, halo=0.0)
    q = sym.field((ny, nx))
    bg = sym.var("bg")

    def rec(name, scn, vals, **extra):
        if vals is not None:
            run.cex.append(dict(scenario=scn, obligation=name, q=kindl.field_from_model(vals, (ny, nx)).tolist(),
                                bg=vals.get("bg", 0.0), **extra))

    # (a) source translation
    g, c, f = kindl.sym_solve(sym, sc0, q, srf_bg_conc=bg)
    c, f = kindl.lv3(c, sc), kindl.lv3(f, sc)
    for (sy, sx) in shifts(ny, nx):
        qs = np.roll(q, (sy, sx), axis=(0, 1)).view(af.SymArr)
        g, c2, f2 = kindl.sym_solve(sym, sc0, qs, srf_bg_conc=bg)
        c2, f2 = kindl.lv3(c2, sc), kindl.lv3(f2, sc)
        scn = dict(sc0, part="a", shift=[sy, sx])
        rec("source_shift_flux", scn, kindl.forms_equal(run, sp, f2, np.roll(f, (sy, sx), axis=(1, 2)), "source_shift_flux", scn))
        rec("source_shift_conc", scn, kindl.forms_equal(run, sp, c2, np.roll(c, (sy, sx), axis=(1, 2)), "source_shift_conc", scn))
    # (b) tower translation, continuous position
    xm, ym = sym.var("xm"), sym.var("ym")
    g, cf, ff = kindl.sym_solve(sym, sc0, q, footprint=True, meas_pt=(xm, ym))
    cf, ff = kindl.lv3(cf, sc), kindl.lv3(ff, sc)
    for (sy, sx) in shifts(ny, nx)[:3]:
        g, c2, f2 = kindl.sym_solve(sym, sc0, q, footprint=True, meas_pt=(xm + sx * dx, ym + sy * dy))
        c2, f2 = kindl.lv3(c2, sc), kindl.lv3(f2, sc)
        scn = dict(sc0, part="b", shift=[sy, sx])
        rec("tower_shift_flux", scn, kindl.forms_equal(run, sp, f2, np.roll(ff, (sy, sx), axis=(1, 2)), "tower_shift_flux", scn))
        rec("tower_shift_conc", scn, kindl.forms_equal(run, sp, c2, np.roll(cf, (sy, sx), axis=(1, 2)), "tower_shift_conc", scn))
    # (c) point reflection of the unit-source response
    amp = sym.var("amp")
    pts = [(0, 0), (nx - 1, ny - 1), (nx // 2, ny // 2), (1 % nx, (ny - 1))]
    for (i, j) in sorted(set(pts)):
        qd = np.zeros((ny, nx), dtype=object)
        qd[j, i] = amp
        g, cG, fG = kindl.sym_solve(sym, sc0, qd.view(af.SymArr))
        cG, fG = kindl.lv3(cG, sc), kindl.lv3(fG, sc)
        g, cF, fF = kindl.sym_solve(sym, sc0, q, footprint=True, meas_pt=(i * dx, j * dy))
        cF, fF = kindl.lv3(cF, sc), kindl.lv3(fF, sc)
        jj = (2 * j - np.arange(ny)) % ny
        ii = (2 * i - np.arange(nx)) % nx
        scn = dict(sc0, part="c", point=[i, j])
        for name, G, F in (("point_reflection_flux", fG, fF), ("point_reflection_conc", cG, cF)):
            refl = G[:, jj][:, :, ii]
            lhs = np.empty(F.shape, dtype=object)
            for idx in np.ndindex(F.shape):
                lhs[idx] = F[idx] * amp
            vals = kindl.forms_equal(run, sp, lhs, refl, name, scn)
            if vals is not None:
                run.cex.append(dict(scenario=scn, obligation=name))
    # (d) dispersion-mode re-centring
    if ny % 2 == 0 and nx % 2 == 0:
        # every class of (coordinate is 0 / on the domain mid-line / elsewhere) x (same for y), except the origin
        ci = [0, nx // 2] + ([1 if nx // 2 != 1 else nx - 1] if nx > 2 else [])
        cj = [0, ny // 2] + ([ny - 1 if ny // 2 != ny - 1 else 1] if ny > 2 else [])
        pts = []
        for i in ci:
            for j in cj:
                if (i, j) != (0, 0) and (i, j) not in pts:
                    pts.append((i, j))
        for (i, j) in pts:
            g, c2, f2 = kindl.sym_solve(sym, sc0, q, srf_bg_conc=bg, meas_pt=(i * dx, j * dy))
            c2, f2 = kindl.lv3(c2, sc), kindl.lv3(f2, sc)
            sh = (ny // 2 - j, nx // 2 - i)
            scn = dict(sc0, part="d", point=[i, j])
            rec("recentred_flux", scn, kindl.forms_equal(run, sp, f2, np.roll(f, sh, axis=(1, 2)), "recentred_flux", scn))
            rec("recentred_conc", scn, kindl.forms_equal(run, sp, c2, np.roll(c, sh, axis=(1, 2)), "recentred_conc", scn))
            if sc["halo"] != 0.0:
                g, ch, fh = kindl.sym_solve(sym, sc, q, srf_bg_conc=bg)
                g, c3, f3 = kindl.sym_solve(sym, sc, q, srf_bg_conc=bg, meas_pt=(i * dx, j * dy))
                ch, fh, c3, f3 = (kindl.lv3(a, sc) for a in (ch, fh, c3, f3))
                scn = dict(sc, part="d-halo", point=[i, j])
                rec("centre_value_flux", scn, kindl.forms_equal(run, sp, f3[:, ny // 2, nx // 2], fh[:, j, i], "centre_value_flux", scn))
                rec("centre_value_conc", scn, kindl.forms_equal(run, sp, c3[:, ny // 2, nx // 2], ch[:, j, i], "centre_value_conc", scn))
    run.sample(dict(scenario=sc, variables=sp.dim - 1, phase_variables=2 * len(sp.phase)), cap=3)


worker = functools.partial(kindl.guarded_worker, PID, body)


def replay(rec):
    sc = rec["scenario"]
    ob = rec["obligation"]
    ny, nx, dx, dy = sc["ny"], sc["nx"], sc["dx"], sc["dy"]
    tol = kindl.REPLAY_TOL[sc["precision"]]
    rng = np.random.default_rng(5)
    q = np.array(rec["q"], float) if "q" in rec else rng.standard_normal((ny, nx))
    bg = float(rec.get("bg", 0.2))
    worst = 0.0
    L = lambda a: kindl.lv3(a, sc)
    if ob.startswith("source_shift"):
        sy, sx = sc["shift"]
        g, c, f = kindl.real_solve(sc, q, srf_bg_conc=bg)
        g, c2, f2 = kindl.real_solve(sc, np.roll(q, (sy, sx), axis=(0, 1)), srf_bg_conc=bg)
        worst = max(kindl.rel_err(L(f2), np.roll(L(f), (sy, sx), axis=(1, 2))), kindl.rel_err(L(c2) - bg, np.roll(L(c), (sy, sx), axis=(1, 2)) - bg))
    elif ob.startswith("tower_shift"):
        sy, sx = sc["shift"]
        for pos in ((0.37 * dx, 0.61 * dy), (1.73 * dx, 0.29 * dy), ((nx - 0.5) * dx, (ny - 0.41) * dy)):
            g, c, f = kindl.real_solve(sc, q, footprint=True, meas_pt=pos)
            g, c2, f2 = kindl.real_solve(sc, q, footprint=True, meas_pt=(pos[0] + sx * dx, pos[1] + sy * dy))
            worst = max(worst, kindl.rel_err(L(f2), np.roll(L(f), (sy, sx), axis=(1, 2))), kindl.rel_err(L(c2), np.roll(L(c), (sy, sx), axis=(1, 2))))
    elif ob.startswith("point_reflection"):
        i, j = sc["point"]
        qd = np.zeros((ny, nx)); qd[j, i] = 1.0
        g, cG, fG = kindl.real_solve(sc, qd)
        g, cF, fF = kindl.real_solve(sc, q, footprint=True, meas_pt=(i * dx, j * dy))
        jj = (2 * j - np.arange(ny)) % ny
        ii = (2 * i - np.arange(nx)) % nx
        worst = max(kindl.rel_err(L(fF), L(fG)[:, jj][:, :, ii]), kindl.rel_err(L(cF), L(cG)[:, jj][:, :, ii]))
    elif ob.startswith("recentred"):
        i, j = sc["point"]
        g, c, f = kindl.real_solve(sc, q, srf_bg_conc=bg)
        g, c2, f2 = kindl.real_solve(sc, q, srf_bg_conc=bg, meas_pt=(i * dx, j * dy))
        sh = (ny // 2 - j, nx // 2 - i)
        worst = max(kindl.rel_err(L(f2), np.roll(L(f), sh, axis=(1, 2))), kindl.rel_err(L(c2) - bg, np.roll(L(c), sh, axis=(1, 2)) - bg))
    else:
        i, j = sc["point"]
        g, c, f = kindl.real_solve(sc, q, srf_bg_conc=bg)
        g, c2, f2 = kindl.real_solve(sc, q, srf_bg_conc=bg, meas_pt=(i * dx, j * dy))
        sf = max(np.abs(f).max(), 1e-300); scc = max(np.abs(np.asarray(c) - bg).max(), 1e-300)
        worst = max(float(np.abs(L(f2)[:, ny // 2, nx // 2] - L(f)[:, j, i]).max() / sf), float(np.abs(L(c2)[:, ny // 2, nx // 2] - L(c)[:, j, i]).max() / scc))
    return dict(obligation=ob, max_rel_discrepancy=worst, tolerance=tol, confirmed=bool(worst > tol))


CANARIES = [
    ("recentre_uses_xmx_for_y", {"solver": [("Ly * (ym - ymx / 2)", "Ly * (ym - xmx / 2)")]}),
    ("recentre_truthiness", {"solver": [("elif xm**2 + ym**2 > 0.0:", "elif xm and ym:")]}),
    ("wavenumber_dx_dy_swapped", {"solver": [("lx = 2.0 * np.pi / dx / nxe * ilx", "lx = 2.0 * np.pi / dy / nxe * ilx")]}),
    ("fp_shift_sign", {"solver": [("shift = np.exp(1j * (Lx * (xm + px * dx)", "shift = np.exp(-1j * (Lx * (xm + px * dx)")]}),
]


def canary_probe(sym, sc):
    return kindl.probe_body(PID, body, sym, sc)


def main(run):
    run.explanation = (
        "Symbolic execution of the solver on affine forms: translation of a symbolic source / of a continuous "
        "symbolic tower position (phase variables) commutes with the solve; the footprint is the point "
        "reflection of the unit-source response (symbolic amplitude); dispersion-mode re-centring is a roll "
        "that puts the measurement point at the domain centre. z3 decides each identity for all fields / positions."
    )
    run.assumptions = [
        "real arithmetic with the production doubles as coefficients; tolerance 1e-9 of the largest coefficient",
        "pyfftw = mathematical DFT; numba preserves Python semantics",
        "independent phase variables over-approximate the true ones; sat answers are replayed at three generic off-grid positions",
        "re-centring as a full-field roll is asserted for even grids with halo=0; with a halo only the centre value is asserted",
    ]
    kindl.validate_encoding(run)
    scs = kindl.base_scenarios(run.tier, run.seed, max_cells=30 if run.tier == "quick" else 49)
    # translation needs all modes or a truncation that is shift-invariant: any; keep as generated
    run.bounds = dict(grids=sorted({(s["ny"], s["nx"]) for s in scs}), profiles=sorted({s["pid"] for s in scs}),
                      layers=sorted({s["n"] for s in scs}), scenarios=len(scs),
                      shifts="(1,0),(0,1),(-1,-1),(1,-1),(ny/2,nx/2+1) incl. wrap-around",
                      outside="grids > 7x7, > 9 layers, other profile families, rounding")
    cex = run.pmap(worker, scs)
    kindl.handle_cex(run, PID, cex, replay)
    cscs = kindl.base_scenarios("quick", 0, max_cells=30)
    pick = [s for s in cscs if s["ny"] % 2 == 0 and s["nx"] % 2 == 0 and s["ny"] * s["dy"] != s["nx"] * s["dx"]][:2]
    kindl.run_canaries(run, "vf.props.C06:canary_probe", CANARIES, pick)
