"""C07 - reflection, axis swap, similarity.

(a) Kind L, symbolic source, halo = 0: mirroring the problem in x (source
    mirrored, u negated) / in y / exchanging the axes (source transposed; wind
    components, horizontal diffusivities, domain extents, mode counts and the
    measurement point swapped) mirrors / transposes the returned fields.  Both
    sides are compared in Fourier space with the Nyquist rows/columns of the
    grid and the unpaired highest mode (+-nl/2) of a truncated set removed -
    the property excludes them.
(b) Similarity, concrete factors over six decades: lengths and diffusivities
    times s leave flux and concentration unchanged; winds and diffusivities
    times s leave the flux unchanged and divide the concentration by s.
(c) Kind P (exact, symbolic s > 0, no bound): see vf/props/C07p (part of this
    check): the per-layer propagator entries and the upper-boundary ratio are
    invariant / scale as required under both scalings."""
import functools

import numpy as np

from ..symnp import affine as af
from ..symnp import kindl

PID = "C07"
FACTORS = [1e-5, 1e-3, 0.5, 3.0, 1e3, 1e5]


def keep_mask(n, nl):
    """frequencies (fft order) kept for comparison along one axis"""
    k = np.fft.fftfreq(n, d=1.0 / n).round().astype(int)
    m = np.ones(n, bool)
    if n % 2 == 0:
        m &= np.abs(k) != n // 2
    if nl < n and nl % 2 == 0:
        m &= np.abs(k) != nl // 2
    return m


def spec(arr, sp):
    C = af.coeffs(arr, sp)
    return np.fft.fft2(C, axes=(-3, -2), norm="forward")


def masked_forms(arr, sp, my, mx):
    F = spec(arr, sp)
    F = F[:, my][:, :, mx]
    return af.from_coeffs(F, sp)


def variants(sc, prof):
    u, v, Kx, Ky, Kz = prof
    ny, nx, dx, dy = sc["ny"], sc["nx"], sc["dx"], sc["dy"]
    mx_, my_ = sc["modes"]
    yield "mirror_x", dict(
        q=lambda q: q[:, (-np.arange(nx)) % nx], prof=(-u, v, Kx, Ky, Kz), sc=sc,
        out=lambda a: a[:, :, (-np.arange(nx)) % nx], meas=lambda i, j: ((-i) % nx, j), shape=(ny, nx))
    yield "mirror_y", dict(
        q=lambda q: q[(-np.arange(ny)) % ny, :], prof=(u, -v, Kx, Ky, Kz), sc=sc,
        out=lambda a: a[:, (-np.arange(ny)) % ny, :], meas=lambda i, j: (i, (-j) % ny), shape=(ny, nx))
    sct = dict(sc, ny=nx, nx=ny, dx=dy, dy=dx, modes=(my_, mx_))
    yield "transpose", dict(
        q=lambda q: q.T, prof=(v, u, Ky, Kx, Kz), sc=sct,
        out=lambda a: np.transpose(a, (0, 2, 1)), meas=lambda i, j: (j, i), shape=(nx, ny))


def body(run, sym, sc):
    sp = sym.sp
    ny, nx = sc["ny"], sc["nx"]
    dx, dy = sc["dx"], sc["dy"]
    sc0 = dict(sc, halo=0.0)
    z, prof = kindl.profiles(sc["pid"], sc["n"], seed=sc["seed"])
    q = sym.field((ny, nx))
    bg = sym.var("bg")
    nlx, nly = sc["modes"]
    mx, my = keep_mask(nx, min(nlx, nx) if nlx <= nx and nly <= ny else nx), keep_mask(ny, min(nly, ny) if nlx <= nx and nly <= ny else ny)

    def rec(name, scn, vals):
        if vals is not None:
            run.cex.append(dict(scenario=scn, obligation=name, q=kindl.field_from_model(vals, (ny, nx)).tolist(), bg=vals.get("bg", 0.0)))

    g, c, f = kindl.sym_solve(sym, sc0, q, srf_bg_conc=bg, zprof=(z, prof))
    c, f = kindl.lv3(c, sc), kindl.lv3(f, sc)
    i0, j0 = 1 % nx, (ny - 1)
    g, cF, fF = kindl.sym_solve(sym, sc0, q, footprint=True, meas_pt=(i0 * dx, j0 * dy), zprof=(z, prof))
    cF, fF = kindl.lv3(cF, sc), kindl.lv3(fF, sc)
    g, cM, fM = kindl.sym_solve(sym, sc0, q, srf_bg_conc=bg, meas_pt=(i0 * dx, j0 * dy), zprof=(z, prof))
    cM, fM = kindl.lv3(cM, sc), kindl.lv3(fM, sc)
    for name, V in variants(sc0, prof):
        scv = V["sc"]
        q2 = V["q"](q).view(af.SymArr)
        # dispersion mode with a non-zero (re-centring) measurement point
        i2, j2 = V["meas"](i0, j0)
        g, c4, f4 = kindl.sym_solve(sym, scv, q2, srf_bg_conc=bg, meas_pt=(i2 * scv["dx"], j2 * scv["dy"]), zprof=(z, V["prof"]))
        c4, f4 = kindl.lv3(c4, scv, V["shape"]), kindl.lv3(f4, scv, V["shape"])
        scn = dict(sc0, part="a-recentred", variant=name, point=[i0, j0])
        for nm, a, b in ((name + "_recentred_flux", fM, V["out"](f4)), (name + "_recentred_conc", cM, V["out"](c4))):
            rec(nm, scn, kindl.forms_equal(run, sp, masked_forms(a, sp, my, mx), masked_forms(b, sp, my, mx), nm, scn))
        g, c2, f2 = kindl.sym_solve(sym, scv, q2, srf_bg_conc=bg, zprof=(z, V["prof"]))
        c2, f2 = kindl.lv3(c2, scv, V["shape"]), kindl.lv3(f2, scv, V["shape"])
        # bring the variant's output back to the original orientation: the maps are involutions
        back = V["out"]
        scn = dict(sc0, part="a", variant=name)
        for nm, a, b in ((name + "_flux", f, back(f2)), (name + "_conc", c, back(c2))):
            rec(nm, scn, kindl.forms_equal(run, sp, masked_forms(a, sp, my, mx), masked_forms(b, sp, my, mx), nm, scn))
        i2, j2 = V["meas"](i0, j0)
        g, c3, f3 = kindl.sym_solve(sym, scv, q2, footprint=True, meas_pt=(i2 * scv["dx"], j2 * scv["dy"]), zprof=(z, V["prof"]))
        c3, f3 = kindl.lv3(c3, scv, V["shape"]), kindl.lv3(f3, scv, V["shape"])
        scn = dict(sc0, part="a-footprint", variant=name, point=[i0, j0])
        for nm, a, b in ((name + "_fp_flux", fF, back(f3)), (name + "_fp_conc", cF, back(c3))):
            vals = kindl.forms_equal(run, sp, masked_forms(a, sp, my, mx), masked_forms(b, sp, my, mx), nm, scn)
            if vals is not None:
                run.cex.append(dict(scenario=scn, obligation=nm))
    # (b) similarity with the scenario's own halo
    g, c, f = kindl.sym_solve(sym, sc, q, srf_bg_conc=bg, zprof=(z, prof))
    mp = (i0 * dx, j0 * dy)
    g, cm, fm = kindl.sym_solve(sym, sc, q, srf_bg_conc=bg, zprof=(z, prof), meas_pt=mp)
    g, cq, fq = kindl.sym_solve(sym, sc, q, footprint=True, zprof=(z, prof), meas_pt=mp)
    u, v, Kx, Ky, Kz = prof
    for s in FACTORS:
        h = None if sc["halo"] is None else sc["halo"] * s
        sc1 = dict(sc, dx=dx * s, dy=dy * s, halo=h)
        zp1 = (z * s, (u, v, Kx * s, Ky * s, Kz * s))
        g, c1, f1 = kindl.sym_solve(sym, sc1, q, srf_bg_conc=bg, zprof=zp1)
        scn = dict(sc, part="b-lengths", factor=s)
        rec("similarity_lengths_flux", scn, kindl.forms_equal(run, sp, f1, f, "similarity_lengths_flux", scn))
        rec("similarity_lengths_conc", scn, kindl.forms_equal(run, sp, c1, c, "similarity_lengths_conc", scn))
        # the measurement point is a length too: re-centred dispersion and footprint mode
        mps = (mp[0] * s, mp[1] * s)
        g, c3, f3 = kindl.sym_solve(sym, sc1, q, srf_bg_conc=bg, zprof=zp1, meas_pt=mps)
        scn = dict(sc, part="b-lengths-recentred", factor=s, point=[i0, j0])
        rec("similarity_lengths_flux", scn, kindl.forms_equal(run, sp, f3, fm, "similarity_lengths_flux", scn))
        rec("similarity_lengths_conc", scn, kindl.forms_equal(run, sp, c3, cm, "similarity_lengths_conc", scn))
        g, c4, f4 = kindl.sym_solve(sym, sc1, q, footprint=True, zprof=zp1, meas_pt=mps)
        scn = dict(sc, part="b-lengths-footprint", factor=s, point=[i0, j0])
        for nm, a, b in (("similarity_lengths_flux", f4, fq), ("similarity_lengths_conc", c4, cq)):
            vals = kindl.forms_equal(run, sp, a, b, nm, scn)
            if vals is not None:
                run.cex.append(dict(scenario=scn, obligation=nm))
        g, c2, f2 = kindl.sym_solve(sym, sc, q, srf_bg_conc=bg * (1.0 / s), zprof=(z, (u * s, v * s, Kx * s, Ky * s, Kz * s)))
        scn = dict(sc, part="b-speeds", factor=s)
        rec("similarity_speeds_flux", scn, kindl.forms_equal(run, sp, f2, f, "similarity_speeds_flux", scn))
        c2s = np.empty(np.shape(c2), dtype=object)
        for idx in np.ndindex(np.shape(c2)):
            c2s[idx] = c2[idx] * s
        rec("similarity_speeds_conc", scn, kindl.forms_equal(run, sp, c2s, c, "similarity_speeds_conc", scn))
    run.sample(dict(scenario=sc, variables=sp.dim - 1, kept_x=int(mx.sum()), kept_y=int(my.sum())), cap=3)


worker = functools.partial(kindl.guarded_worker, PID, body)


def _filt(a, my, mx):
    F = np.fft.fft2(a, axes=(-2, -1), norm="forward")
    return F[:, my][:, :, mx]


def replay(rec):
    sc = rec["scenario"]
    ob = rec["obligation"]
    ny, nx, dx, dy = sc["ny"], sc["nx"], sc["dx"], sc["dy"]
    tol = kindl.REPLAY_TOL[sc["precision"]]
    rng = np.random.default_rng(3)
    q = np.array(rec["q"], float) if "q" in rec else rng.standard_normal((ny, nx))
    bg = float(rec.get("bg", 0.2))
    z, prof = kindl.profiles(sc["pid"], sc["n"], seed=sc.get("seed", 0))
    u, v, Kx, Ky, Kz = prof
    worst = 0.0
    if ob.startswith("similarity"):
        s = sc["factor"]
        g, c, f = kindl.real_solve(sc, q, srf_bg_conc=bg, zprof=(z, prof))
        if "lengths" in ob:
            h = None if sc["halo"] is None else sc["halo"] * s
            kw0, kw1 = dict(srf_bg_conc=bg), dict(srf_bg_conc=bg)
            if "point" in sc:
                mp = (sc["point"][0] * dx, sc["point"][1] * dy)
                fpm = sc.get("part", "").endswith("footprint")
                kw0 = dict(meas_pt=mp, footprint=fpm, srf_bg_conc=bg)
                kw1 = dict(meas_pt=(mp[0] * s, mp[1] * s), footprint=fpm, srf_bg_conc=bg)
                g, c, f = kindl.real_solve(sc, q, zprof=(z, prof), **kw0)
            g, c1, f1 = kindl.real_solve(dict(sc, dx=dx * s, dy=dy * s, halo=h), q, zprof=(z * s, (u, v, Kx * s, Ky * s, Kz * s)), **kw1)
            worst = max(kindl.rel_err(f1, f), kindl.rel_err(np.asarray(c1) - bg, np.asarray(c) - bg))
        else:
            g, c2, f2 = kindl.real_solve(sc, q, srf_bg_conc=bg / s, zprof=(z, (u * s, v * s, Kx * s, Ky * s, Kz * s)))
            worst = max(kindl.rel_err(f2, f), kindl.rel_err((np.asarray(c2) - bg / s) * s, np.asarray(c) - bg))
    else:
        name = sc["variant"]
        V = dict(variants(sc, prof))[name]
        nlx, nly = sc["modes"]
        full = not (nlx <= nx and nly <= ny)
        mx, my = keep_mask(nx, nx if full else nlx), keep_mask(ny, ny if full else nly)
        fp = "fp" in ob
        rc = "recentred" in ob
        kw = dict(footprint=True, meas_pt=(sc["point"][0] * dx, sc["point"][1] * dy)) if fp else dict(srf_bg_conc=bg)
        if rc:
            kw["meas_pt"] = (sc["point"][0] * dx, sc["point"][1] * dy)
        g, c, f = kindl.real_solve(sc, q, zprof=(z, prof), **kw)
        scv = V["sc"]
        if fp or rc:
            i2, j2 = V["meas"](*sc["point"])
            kw["meas_pt"] = (i2 * scv["dx"], j2 * scv["dy"])
        g, c2, f2 = kindl.real_solve(scv, V["q"](q), zprof=(z, V["prof"]), **kw)
        c, f = kindl.lv3(c, sc), kindl.lv3(f, sc)
        c2, f2 = V["out"](kindl.lv3(c2, scv, V["shape"])), V["out"](kindl.lv3(f2, scv, V["shape"]))
        A, B = _filt(f, my, mx), _filt(f2, my, mx)
        worst = float(np.abs(A - B).max() / max(np.abs(A).max(), 1e-300))
        A, B = _filt(c, my, mx), _filt(c2, my, mx)
        A = A.copy(); B = B.copy()
        worst = max(worst, float(np.abs(A - B).max() / max(np.abs(A[..., 1:, :]).max(), np.abs(A[..., :, 1:]).max(), 1e-300)))
    return dict(obligation=ob, max_rel_discrepancy=worst, tolerance=tol, confirmed=bool(worst > tol))


CANARIES = [
    ("top_bc_uses_Kx_for_y", {"solver": [("KyKzinv = Ky[nz - 1] * Kzinv", "KyKzinv = Kx[nz - 1] * Kzinv")]}),
    ("sweep_uses_Kx_for_y", {"solver": [("Ti = -(Kx[i] * Lx**2 + Ky[i] * Ly**2)", "Ti = -(Kx[i] * Lx**2 + Kx[i] * Ly**2)")]}),
    ("top_bc_v_with_Lx", {"solver": [("1j * v[nz - 1] * Kzinv * Ly[msk]", "1j * v[nz - 1] * Kzinv * Lx[msk]")]}),
    ("recentre_uses_xmx_for_y", {"solver": [("Ly * (ym - ymx / 2)", "Ly * (ym - xmx / 2)")]}),
    ("dy_from_xmx", {"solver": [("dx, dy = xmx / nx, ymx / ny", "dx, dy = xmx / nx, xmx / ny")]}),
    ("absolute_length_threshold_in_recentring", {"solver": [("elif xm**2 + ym**2 > 0.0:", "elif xm**2 + ym**2 > 1e-6:")]}),
    ("absolute_length_in_top_bc", {"solver": [("+ KyKzinv * Ly[msk] ** 2", "+ KyKzinv * Ly[msk] ** 2 + 1e-4")]}),
]


def canary_probe(sym, sc):
    return kindl.probe_body(PID, body, sym, sc)


def main(run):
    from . import C07p

    run.explanation = (
        "Symbolic execution of the solver on affine forms: the mirrored / transposed problem returns the "
        "mirrored / transposed fields (compared mode by mode, grid Nyquist and the truncated set's unpaired "
        "mode removed), for all source fields; similarity under length and speed scalings for concrete "
        "factors 1e-3..1e3; and, in exact arithmetic with a symbolic factor s>0 (no bound), the per-layer "
        "step matrix of the real ivp_solver and the upper-boundary closure are invariant under both scalings."
    )
    run.assumptions = [
        "real arithmetic with the production doubles as coefficients; tolerance 1e-9 of the largest coefficient",
        "pyfftw = mathematical DFT; numba preserves Python semantics",
        "Nyquist components of the grid and +-nl/2 of a truncated mode set are excluded, as the property states",
    ]
    kindl.validate_encoding(run)
    scs = kindl.base_scenarios(run.tier, run.seed, max_cells=30 if run.tier == "quick" else 49)
    run.bounds = dict(grids=sorted({(s["ny"], s["nx"]) for s in scs}), profiles=sorted({s["pid"] for s in scs}),
                      layers=sorted({s["n"] for s in scs}), scenarios=len(scs), factors=FACTORS,
                      outside="grids > 7x7, > 9 layers, other profile families, rounding")
    cex = run.pmap(worker, scs)
    kindl.handle_cex(run, PID, cex, replay)
    cscs = kindl.base_scenarios("quick", 0, max_cells=30)
    pick = [s for s in cscs if s["pid"] in ("P2", "P5") and s["ny"] != s["nx"]][:2]
    kindl.run_canaries(run, "vf.props.C07:canary_probe", CANARIES, pick)
    C07p.run_exact(run)
